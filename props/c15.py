"""C15 — proxy() forwards every message verbatim in both directions (engine: world)."""
import itertools

from vlib import gen, worldgen as wg, zmtp
from vlib.core import Case

ID = "C15"
LEAN_TARGETS = ["ZmqVerif.Props.C15"]
RULE = (
    "real proxy(ROUTER, DEALER, capture PUSH / PUB / none) with scripted raw clients (REQ/DEALER) on the front and raw "
    "workers (REP) on the back and a raw sink on the capture. EXHAUSTIVE: 1..2 clients x 1..2 workers x every arrival "
    "pattern of 3 events over {client i sends a request, worker j sends a reply} INCLUDING both sides ready in the same "
    "poll (events revealed before one poll) and separately (one poll per event) x 3 payload shapes; seeded longer "
    "schedules with 3 clients/workers and segmentation; chain-reconnect: a client connects again under its configured identity while "
    "the old connection is still registered (open, or closed but not yet polled) and makes a request — forwarded under its "
    "identity, answered on the NEW connection, nothing on the old one. After every poll the wire of every connection is read (the "
    "capture's as a sorted set of messages: its order across directions is select!'s random pick). Non-trivial: at least "
    "one message forwarded in each direction. Spec oracle: per direction the forwarded messages are exactly the received "
    "ones, unchanged (client identity prefixed by ROUTER on the way in, stripped on the way out), in order; the capture "
    "got one copy of each; replies reach the client named in their envelope only."
    " Family frame-size: requests and replies whose frames have the boundary sizes of the ZMTP frame header (0, 1, 254, 255, 256, 257, 65535, 65536 bytes) go through the proxy chain; the bytes on the other side's wire are the RFC encoding of the same frames."
    " chain-reconnect variants: the client's first connection ends with an ERROR (a frame the decoder rejects, a reset) or cleanly, noticed by the proxy (`-seen`) or not, before the client comes back under the same identity: its next request is forwarded and the reply returns on the new connection."
)
ASSUMPTIONS = ["when a send blocks while both sides are ready, which direction is half-done is select!'s random choice: such schedules are not compared"]
TRUSTED = ["futures::select! picks among READY branches only and drops the losing futures"]
SHRINK = False
SHAPES = [[b"x"], [b"a", b"", b"b"], [b"z" * 300]]


def build(nc, nw, events, shape, cap, together, n, tag, slow_cap=None):
    sc = wg.Script()
    sc.sock(1, "ROUTER")
    sc.sock(2, "DEALER")
    pipes = []
    for c in range(1, nc + 1):
        sc.attach(1, c, "REQ", b"c%d" % c)
        pipes.append(c)
    for w in range(1, nw + 1):
        sc.attach(2, 10 + w, "REP", b"w%d" % w)
        pipes.append(10 + w)
    capargs = ""
    if cap:
        sc.sock(3, cap)
        sc.attach(3, 20, "PULL" if cap == "PUSH" else "SUB", b"cap")
        if cap == "PUB":
            sc.reveal_msg(20, [b"\x01"])
            sc.add("drain")
        capargs = " 3"
    for p in pipes + ([20] if cap else []):
        sc.add(f"wire {p}")
    if slow_cap is not None:
        # the capture's consumer is slow: its connection accepts only `slow_cap` bytes for now
        sc.add(f"credit 20 {slow_cap}")
    f = sc.fut()
    sc.add(f"proxy {f} 1 2{capargs}", f"poll {f}")
    exp_back, exp_front, all_fwd = [], {}, []
    k = 0
    for ev in events:
        k += 1
        kind, i = ev
        if kind == "c":
            fr = [b""] + [b"q%d" % k] + shape
            sc.reveal_msg(i, fr)
            exp_back.append([b"c%d" % i] + fr)
            all_fwd.append([b"c%d" % i] + fr)
        else:
            target = (k % nc) + 1
            fr = [b"c%d" % target, b""] + [b"r%d" % k] + shape
            sc.reveal_msg(10 + i, fr)
            exp_front.setdefault(target, []).append(fr[1:])
            all_fwd.append(fr)
        if not together:
            sc.add(f"poll {f}")
    if together:
        sc.add(f"poll {f}")
    sc.add(f"poll {f}")
    if slow_cap is not None:
        for p in pipes:
            sc.add(f"wire {p}")
        sc.add("credit 20 inf")  # (the capture wire is read once, at the end: reading drains it)
        sc.add(*[f"poll {f}"] * (len(events) + 2))
    for p in pipes:
        sc.add(f"wire {p}")
    if cap:
        sc.add("wiresorted 20")
    c = sc.case(f"{tag}#{n}", [tag])
    c.expect = (nc, nw, exp_back, exp_front, all_fwd, bool(cap))
    return c


def reconnect_case(variant, shape, n):
    """the chain while a client RECONNECTS under its configured identity before the proxy's ROUTER has seen the old
    connection end (`open`: the old connection is simply still there; `eof`: it has closed but nothing polled it yet):
    requests read from the new connection are answered on the new connection, nothing goes to the old one"""
    sc = wg.Script()
    sc.sock(1, "ROUTER")
    sc.sock(2, "DEALER")
    sc.attach(1, 1, "REQ", b"c1")
    sc.attach(2, 11, "REP", b"w1")
    g = sc.fut()
    sc.add(f"attach {g} 1 5")                 # the reconnecting client's handshake future, polled later
    for p in (1, 11):
        sc.add(f"wire {p}")
    f = sc.fut()
    sc.add(f"proxy {f} 1 2", f"poll {f}")
    sc.reveal_msg(1, [b"", b"q1"] + shape)
    sc.add(f"poll {f}", "wire 11")
    sc.reveal_msg(11, [b"c1", b"", b"r1"] + shape)
    sc.add(f"poll {f}", "wire 1")
    if variant.startswith("eof"):
        sc.add("eof 1")
    if variant.startswith("protoerr"):
        sc.add(f"reveal 1 {wg.hx(bytes([4, 1, 0]))}")       # a frame the decoder rejects: the connection ends with an ERROR
    if variant.startswith("rderr"):
        sc.add("rderr 1 ConnectionReset")
    if variant.endswith("-seen"):
        sc.add(f"poll {f}", f"poll {f}")                      # the proxy has noticed and forgotten the old connection
    sc.add(f"reveal 5 {wg.hx(wg.G + zmtp.ready('REQ', b'c1'))}", f"poll {g}", "wire 5")
    sc.reveal_msg(5, [b"", b"q2"] + shape)
    sc.add(f"poll {f}", "wire 11")
    sc.reveal_msg(11, [b"c1", b"", b"r2"] + shape)
    sc.add(f"poll {f}", f"poll {f}", "wire 1", "wire 5")
    c = sc.case(f"chain-reconnect-{variant}#{n}", ["chain-reconnect"])
    c.expect = ("reconnect", [b"", b"r2"] + shape, [b"c1", b"", b"q2"] + shape)
    return c


def reconnect_oracle(case, lines):
    _, reply, fwd = case.expect
    res = list(zip(case.ops, lines[1:]))
    w1 = [l for op, l in res if op == "wire 1"][-1]
    w5 = [l for op, l in res if op == "wire 5"][-1]
    w11 = [l for op, l in res if op == "wire 11"][-1]
    if w11 != "wire " + wg.show_wire([fwd]):
        return f"the request of the reconnected client was not forwarded verbatim under its identity: {w11[:100]}"
    if w1 != "wire .":
        return f"the reply to the request made on the NEW connection was written to the OLD connection of that identity: {w1[:100]}"
    if w5 != "wire " + wg.show_wire([reply]):
        return f"the client that made the request did not get its reply on its connection: {w5[:100]} (want {wg.show_wire([reply])[:60]})"
    return None


def no_worker_case(variant, n):
    """a request is taken from the frontend while the backend has NO peer (before the first worker connects / after the
    last one's end was seen): `proxy()` may end with the error — the sockets go away with it — but it must not keep
    running having dropped the message.  If it is still running when a worker joins, the worker gets every request taken."""
    sc = wg.Script()
    sc.sock(1, "ROUTER")
    sc.sock(2, "DEALER")
    sc.attach(1, 1, "REQ", b"c1")
    if variant == "worker-gone":
        sc.attach(2, 12, "REP", b"w0")
        sc.add("eof 12")
        f0 = sc.fut()
        sc.add(f"recv {f0} 2", f"poll {f0}", f"drop {f0}")      # the DEALER notices that its only worker is gone
    g = sc.fut()
    sc.add(f"attach {g} 2 11")                                   # the (next) worker's handshake future, polled later
    sc.add("wire 1")
    f = sc.fut()
    sc.add(f"proxy {f} 1 2", f"poll {f}")
    sc.reveal_msg(1, [b"", b"A1"])
    sc.add(f"poll {f}")
    sc.add(f"reveal 11 {wg.hx(wg.G + zmtp.ready('REP', b'w1'))}", f"poll {g}", "wire 11")
    sc.reveal_msg(1, [b"", b"A2"])
    sc.add(f"poll {f}", f"poll {f}", "wire 11", "halves 1")
    c = sc.case(f"no-worker-{variant}#{n}", ["no-worker"])
    c.expect = ("no-worker", f)
    return c


def no_worker_oracle(case, lines):
    res = list(zip(case.ops, lines[1:]))
    f = case.expect[1]
    polls = [l for op, l in res if op == f"poll {f}"]
    ended = any(l.startswith("ready") for l in polls)
    if ended:
        return None      # the proxy returned its error: nothing is forwarded any more, and nothing was silently dropped by a running proxy
    w11 = [l for op, l in res if op == "wire 11"][-1]
    want = wg.show_wire([[b"c1", b"", b"A1"], [b"c1", b"", b"A2"]])
    if w11 != "wire " + want:
        return (f"the proxy kept running but a request it had TAKEN from the frontend (A1) was never sent on the backend: the worker "
                f"that joined got {w11[:80]} (want both requests: {want[:60]}…)")
    return None


def cases(tier, rng):
    out = gen.corpus(ID)
    n = 0
    for variant in ("never-had-a-worker", "worker-gone"):
        out.append(no_worker_case(variant, 980000 + n))
        n += 1
    for variant in ("open", "eof", "eof-seen", "protoerr-seen", "protoerr", "rderr-seen", "rderr"):
        for shape in SHAPES:
            out.append(reconnect_case(variant, shape, n))
            n += 1
    # frame sizes at the boundaries of the wire format (one-byte size up to 255, eight-byte size from 256; the 8 KiB read size;
    # 64 KiB): forwarded unchanged in both directions, copied unchanged to the capture
    for size in ([0, 1, 254, 255, 256, 257, 8191, 8192, 8193, 65535, 65536] if tier == "quick" else
                 [0, 1, 254, 255, 256, 257, 511, 512, 8191, 8192, 8193, 16384, 65535, 65536, 65537, 131072, 200000]):
        for cap in (None, "PUSH"):
            body = bytes((65 + (i * 7 + size) % 26) for i in range(size))
            c = build(1, 1, [("c", 1), ("w", 1)], [body], cap, False, n, "frame-size")
            c.expect = ("frame-size", body)
            out.append(c)
            n += 1
    for nc, nw in [(1, 1), (2, 1), (1, 2), (2, 2)]:
        evs = [("c", i) for i in range(1, nc + 1)] + [("w", j) for j in range(1, nw + 1)]
        for events in itertools.product(evs, repeat=3):
            for si, shape in enumerate(SHAPES if (nc, nw) == (1, 1) or tier != "quick" else SHAPES[:1]):
                for cap in (None, "PUSH", "PUB"):
                    for together in (True, False):
                        if cap == "PUB" and (nc, nw) != (1, 1) and tier == "quick":
                            continue
                        out.append(build(nc, nw, events, shape, cap, together, n, "both-ready" if together else "one-by-one"))
                        n += 1
    # slow capture consumer: the copy for the capture socket cannot be written at once — it must still arrive,
    # whole, once the consumer catches up (one event per poll: no two directions race)
    for nc, nw in [(1, 1), (2, 1)]:
        evs = [("c", i) for i in range(1, nc + 1)] + [("w", j) for j in range(1, nw + 1)]
        for events in itertools.product(evs, repeat=2 if tier == "quick" else 3):
            for shape in SHAPES:
                for slow in (0, 1, 7):
                    out.append(build(nc, nw, events, shape, "PUSH", False, n, "slow-capture", slow_cap=slow))
                    n += 1
    for _ in range(150 if tier == "quick" else 2000):
        nc, nw = rng.randint(1, 3), rng.randint(1, 3)
        events = [(rng.choice("cw"), 0) for _ in range(rng.randint(3, 10))]
        events = [(k, rng.randint(1, nc if k == "c" else nw)) for k, _ in events]
        out.append(build(nc, nw, events, rng.choice(SHAPES), rng.choice([None, "PUSH"]), rng.random() < 0.5, n, "random"))
        n += 1
    return out


def split_msgs(hexs):
    """cut a wire (hex) into messages (lists of frames); None if abbreviated / incomplete"""
    if hexs == ".":
        return []
    if "#" in hexs:
        return None
    b = bytes.fromhex(hexs)
    i, cur, out = 0, [], []
    while i < len(b):
        fl = b[i]
        if fl & 2:
            ln = int.from_bytes(b[i + 1 : i + 9], "big")
            h = 9
        else:
            ln = b[i + 1]
            h = 2
        cur.append(b[i + h : i + h + ln])
        i += h + ln
        if not fl & 1:
            out.append(cur)
            cur = []
    return out if not cur else None


def oracle(case, lines):
    if any(l.startswith(("PANIC", "ABORT", "TIMEOUT")) for l in lines):
        return "panic/abort"
    if not case.expect:
        return None
    if case.expect[0] == "reconnect":
        return reconnect_oracle(case, lines)
    if case.expect[0] == "no-worker":
        return no_worker_oracle(case, lines)
    if case.expect[0] == "frame-size":
        body = case.expect[1]
        res = list(zip(case.ops, lines[1:]))
        w11 = [l for op, l in res if op == "wire 11" and l != "wire ."]
        w1 = [l for op, l in res if op == "wire 1" and l != "wire ."]
        want_back = "wire " + wg.show_wire([[b"c1", b"", b"q1", body]])
        want_front = "wire " + wg.show_wire([[b"", b"r2", body]])
        if want_back not in w11:
            return (f"a request with a {len(body)}-byte frame was not forwarded unchanged to the worker: {[x[:70] for x in w11[1:]]} "
                    f"(want {want_back[:70]})")
        if want_front not in w1:
            return (f"a reply with a {len(body)}-byte frame was not forwarded unchanged to the client: {[x[:70] for x in w1[1:]]} "
                    f"(want {want_front[:70]})")
        return None
    nc, nw, exp_back, exp_front, all_fwd, has_cap = case.expect
    res = list(zip(case.ops, lines[1:]))
    if any(op.startswith("poll") and l.startswith("ready") for op, l in res[-(nc + nw + 4):]):
        return f"the proxy ended: {[l for op, l in res if op.startswith('poll')][-1]}"
    # wires after the proxy started = last block of `wire` ops
    # (reading a wire drains it: everything written since the proxy started = the reads after that, concatenated)
    last = {}
    started = False
    for op, l in res:
        if op.startswith("proxy "):
            started = True
        if started and op.startswith("wire "):
            p_, v = int(op.split()[1]), l.split(" ", 1)[1]
            if "#" in v or "#" in last.get(p_, ""):
                last[p_] = "#"
            else:
                prev = last.get(p_, ".")
                last[p_] = ((prev if prev != "." else "") + (v if v != "." else "")) or "."
    # backend: the workers together received exactly exp_back, each worker in order (round robin)
    got_back = []
    for w in range(1, nw + 1):
        ms = split_msgs(last[10 + w])
        if ms is None:
            return None
        got_back.append(ms)
    flat = [m for ms in got_back for m in ms]
    if sorted(map(tuple, flat)) != sorted(map(tuple, exp_back)):
        return f"requests forwarded to the workers differ from those received from the clients: {flat} vs {exp_back}"
    # order: the proxy forwards in the order its sockets RECEIVED (fair-queue order across different
    # connections) — what must hold on every destination wire is the order per source connection
    def per_source_ok(dest_msgs, expected_in_source_order, source_of):
        seen = {}
        for m in dest_msgs:
            src = source_of(m)
            lst = [x for x in expected_in_source_order if source_of(x) == src]
            i = seen.get(src, 0)
            while i < len(lst) and lst[i] != m:
                i += 1
            if i == len(lst):
                return False
            seen[src] = i + 1
        return True

    for ms in got_back:
        if not per_source_ok(ms, exp_back, lambda m: m[0]):
            return f"a worker received one client's requests out of order: {ms}"
    for c in range(1, nc + 1):
        ms = split_msgs(last[c])
        if ms is None:
            return None
        want = exp_front.get(c, [])
        if sorted(map(tuple, ms)) != sorted(map(tuple, want)):
            return f"client {c} received {ms} instead of exactly its own replies {want}"
    if has_cap:
        capl = [l for op, l in res if op == "wiresorted 20"][-1]
        want = sorted(zmtp.message(m).hex() for m in all_fwd)
        got = capl.split(" ", 1)[1] if " " in capl else ""
        if "#" not in got and sorted(x for x in got.split(";") if x) != want:
            return f"the capture socket did not receive exactly one copy of every forwarded message: {got[:120]}"
    return None


def nontrivial(case, lines):
    e = case.expect
    if e and e[0] in ("reconnect", "no-worker", "frame-size"):
        return any(l.startswith("wire ") and l != "wire ." for l in lines)
    return bool(e and e[2] and e[3])


def signature(case, ml, il, o):
    return case.name.split("#")[0]
