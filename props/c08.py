"""C08 — REQ/REP lock-step; the reply goes to its requester (engine: world)."""
import itertools

from vlib import gen, worldgen as wg, zmtp
from vlib.core import Case

ID = "C08"
LEAN_TARGETS = ["ZmqVerif.Props.C08"]
RULE = (
    "EXHAUSTIVE: all call sequences of length <= 6 over {send, recv, a reply arrives} on a real REQ with one raw peer, "
    "and of length <= 5 (quick) / 6 (thorough) over {send, recv, request arrives from client 1, from client 2} on a "
    "real REP with two raw clients; plus seeded schedules with 1..4 clients, random segmentation of the requests and "
    "interleaved recv/send. After every call the wire of every connection is read. Non-trivial: at least one call was "
    "rejected and one accepted. Spec oracle = reference alternation automaton (python): out-of-turn calls fail, hand "
    "the message back intact and write nothing; every reply appears on the wire of the client whose request the last "
    "recv returned, and on no other; per client, replies are in request order."
    ' Family transient-write: a TRANSIENT write error (`wrerr1`: exactly one write on the connection fails — Interrupted, WouldBlock, TimedOut, BrokenPipe) while a request (REQ, 1..2 servers) or a reply (REP, two clients) is written: every request / reply is on the wires at most once, and lock-step goes on.'
)
ASSUMPTIONS = ["a pending recv is abandoned before the next call on the same socket (one &mut borrow at a time)"]
TRUSTED = ["scc::HashMap get_async resolves immediately when uncontended"]
SHRINK = False


def req_case(seq, n):
    sc = wg.Script()
    sc.sock(1, "REQ")
    sc.attach(1, 1, "REP")
    sc.add("wire 1")
    k = 0
    for i, c in enumerate(seq):
        if c == "S":
            f = sc.fut()
            sc.add(f"send {f} 1 {wg.hx(b'req%d' % i)}", f"poll {f}", "wire 1")
        elif c == "R":
            f = sc.fut()
            sc.add(f"recv {f} 1", f"poll {f}", f"drop {f}")
        else:
            k += 1
            sc.reveal_msg(1, [b"", b"rep%d" % k])
    c = sc.case(f"req-seq#{n}", ["req-sequences"])
    c.expect = ("req", seq)
    return c


def rep_case(seq, n, nclients=2):
    sc = wg.Script()
    sc.sock(1, "REP")
    for c in range(1, nclients + 1):
        sc.attach(1, c, "REQ")
        sc.add(f"wire {c}")
    cnt = {}
    for i, c in enumerate(seq):
        if c == "S":
            f = sc.fut()
            sc.add(f"send {f} 1 {wg.hx(b'reply%d' % i)}", f"poll {f}")
            for p in range(1, nclients + 1):
                sc.add(f"wire {p}")
        elif c == "R":
            f = sc.fut()
            sc.add(f"recv {f} 1", f"poll {f}", f"drop {f}")
        elif c in "xy":
            # a MALFORMED request (no delimiter+body) from client 1 / 2: recv must fail and owe nobody a reply
            p = 1 if c == "x" else min(2, nclients)
            sc.reveal_msg(p, [b"solo"] if i % 2 else [b"env", b""])
        else:
            p = int(c)
            cnt[p] = cnt.get(p, 0) + 1
            sc.reveal_msg(p, [b"", b"c%dq%d" % (p, cnt[p])])
    c = sc.case(f"rep-seq#{n}", ["rep-sequences"])
    c.expect = ("rep", seq, nclients)
    return c


def rep_abandoned_send_cases(n0):
    """REP: a reply is abandoned (future dropped) while the requester's connection is not accepting data. The reply
    was accepted (it is in the connection's buffer): a SECOND reply without a new request must be refused, and the
    client must receive exactly one reply per request"""
    out = []
    n = n0
    for credit in (0, 1, 7):
        for k in (1, 2):
            sc = wg.Script()
            sc.sock(1, "REP")
            sc.attach(1, 1, "REQ", b"c1")
            sc.add("wire 1")
            sc.reveal_msg(1, [b"", b"q1"])
            f = sc.fut()
            sc.add(f"recv {f} 1", f"poll {f}", f"credit 1 {credit}")
            g = sc.fut()
            sc.add(f"send {g} 1 {wg.mtok([b'r1'])}")
            sc.add(*[f"poll {g}"] * k)
            sc.add(f"drop {g}")
            h = sc.fut()
            sc.add(f"send {h} 1 {wg.mtok([b'r2-unsolicited'])}", f"poll {h}", f"drop {h}", "credit 1 inf")
            sc.reveal_msg(1, [b"", b"q2"])
            f = sc.fut()
            sc.add(f"recv {f} 1", f"poll {f}")
            g = sc.fut()
            sc.add(f"send {g} 1 {wg.mtok([b'r3'])}", f"poll {g}", "wire 1")
            c = sc.case(f"rep-abandoned-send#{n}", ["rep-abandoned-send"])
            c.expect = ("rep-abandon", h)
            out.append(c)
            n += 1
    return out


def req_failed_send_cases(n0):
    """REQ: an in-turn send whose WRITE fails (the chosen server's connection is broken) returns the error and leaves
    nothing outstanding: the next send is in turn again (and goes to the next server), a recv is out of turn"""
    out = []
    n = n0
    for nsrv in (1, 2, 3):
        for then in ("send", "recv-then-send"):
            sc = wg.Script()
            sc.sock(1, "REQ")
            for k in range(1, nsrv + 1):
                sc.attach(1, k, "REP", b"s%d" % k)
                sc.add(f"wire {k}")
            sc.add("wrerr 1 BrokenPipe")
            f = sc.fut()
            sc.add(f"send {f} 1 {wg.mtok([b'one'])}", f"poll {f}", f"drop {f}")
            if then == "recv-then-send":
                g = sc.fut()
                sc.add(f"recv {g} 1", f"poll {g}", f"drop {g}")
            h = sc.fut()
            sc.add(f"send {h} 1 {wg.mtok([b'two'])}", f"poll {h}", f"drop {h}")
            for k in range(1, nsrv + 1):
                sc.add(f"wire {k}")
            if nsrv > 1:
                sc.reveal_msg(2, [b"", b"answer"])
                g = sc.fut()
                sc.add(f"recv {g} 1", f"poll {g}", f"drop {g}")
            c = sc.case(f"req-failed-send#{n}", ["req-failed-send"])
            c.expect = ("req-failed-send", nsrv, then)
            out.append(c)
            n += 1
    return out


TRANSIENT = ("Interrupted", "WouldBlock", "TimedOut", "BrokenPipe")


def transient_write_cases(n0):
    """a TRANSIENT write error (`wrerr1`: exactly one write on the connection fails — EINTR, a timeout) while a request or
    a reply is being written: whatever the socket makes of the error (report it, forget the peer), a request / reply is
    on the wire AT MOST ONCE, and lock-step goes on with whoever is still there"""
    out = []
    n = n0
    for kind in TRANSIENT:
        # REQ: the first request hits the error
        for nsrv in (1, 2):
            sc = wg.Script()
            sc.sock(1, "REQ")
            for k in range(1, nsrv + 1):
                sc.attach(1, k, "REP", b"s%d" % k)
                sc.add(f"wire {k}")
            sc.add(f"wrerr1 1 {kind}")
            for body in (b"one", b"two"):
                f = sc.fut()
                sc.add(f"send {f} 1 {wg.mtok([body])}", f"poll {f}", f"drop {f}")
                for k in range(1, nsrv + 1):
                    sc.add(f"wire {k}")
                for k in range(1, nsrv + 1):
                    sc.reveal_msg(k, [b"", b"re-" + body])
                g = sc.fut()
                sc.add(f"recv {g} 1", f"poll {g}", f"drop {g}")
            c = sc.case(f"transient-REQ-{kind}#{n}", ["transient-write"])
            c.expect = ("transient", nsrv, [[b"", b"one"], [b"", b"two"]])
            out.append(c)
            n += 1
        # REP: the reply hits the error; a second client goes on
        sc = wg.Script()
        sc.sock(1, "REP")
        sc.attach(1, 1, "REQ", b"c1")
        sc.attach(1, 2, "REQ", b"c2")
        sc.add("wire 1", "wire 2")
        sc.reveal_msg(1, [b"", b"q1"])
        g = sc.fut()
        sc.add(f"recv {g} 1", f"poll {g}", f"drop {g}", f"wrerr1 1 {kind}")
        f = sc.fut()
        sc.add(f"send {f} 1 {wg.mtok([b'a1'])}", f"poll {f}", f"drop {f}", "wire 1", "wire 2")
        sc.reveal_msg(2, [b"", b"q2"])
        sc.reveal_msg(1, [b"", b"q3"])
        for body in (b"a2", b"a3"):
            g = sc.fut()
            sc.add(f"recv {g} 1", f"poll {g}", f"drop {g}")
            f = sc.fut()
            sc.add(f"send {f} 1 {wg.mtok([body])}", f"poll {f}", f"drop {f}", "wire 1", "wire 2")
        c = sc.case(f"transient-REP-{kind}#{n}", ["transient-write"])
        c.expect = ("transient", 2, [[b"", b"a1"], [b"", b"a2"], [b"", b"a3"]])
        out.append(c)
        n += 1
    return out


def rep_same_identity_cases(n0):
    """two connections announce the SAME identity to one REP (a client that reconnects before its old connection's end was
    seen; two clients configured alike): the reply goes to the connection the request CAME FROM — the newest one under
    that identity, which is the one REP reads from — and nothing to the other"""
    out = []
    n = n0
    for old_state in ("idle", "answered", "eof"):
        for peer in ("REQ", "DEALER"):
            sc = wg.Script()
            sc.sock(1, "REP")
            sc.attach(1, 1, peer, b"worker")
            sc.add("wire 1")
            if old_state != "idle":
                sc.reveal_msg(1, [b"", b"a1"])
                sc.recv_once(1)
                sc.send_once(1, [b"ra1"])
                sc.add("wire 1")
            if old_state == "eof":
                sc.add("eof 1")
            sc.attach(1, 2, peer, b"worker")
            sc.add("wire 2")
            sc.reveal_msg(2, [b"", b"b1"])
            f = sc.recv_once(1)
            g = sc.send_once(1, [b"rb1"])
            sc.add("wire 1", "wire 2")
            c = sc.case(f"rep-same-identity-{old_state}-{peer}#{n}", ["rep-same-identity"])
            c.expect = ("rep-same-identity", f, g)
            out.append(c)
            n += 1
    return out


def cases(tier, rng):
    out = gen.corpus(ID)
    out += rep_same_identity_cases(920000)
    out += transient_write_cases(930000)
    out += req_failed_send_cases(910000)
    # safety net: seeded random schedules of these socket types over scripted pipes (partial reads, back-pressure,
    # errors, futures polled once or twice and then ABANDONED, sockets dropped) — every line predicted by the World model
    for i in range(150 if tier == "quick" else 3000):
        out.append(wg.random_case(rng, f"random-world#{i}", ["REQ", "REP"], tags=("random-world",)))
    out += rep_abandoned_send_cases(900000)
    n = 0
    for L in range(1, 7):
        for seq in itertools.product("SRA", repeat=L):
            out.append(req_case(seq, n))
            n += 1
    for L in range(1, (5 if tier == "quick" else 6) + 1):
        for seq in itertools.product("SR12xy" if L <= 4 or tier != "quick" else "SR12", repeat=L):
            out.append(rep_case(seq, n))
            n += 1
    for _ in range(300 if tier == "quick" else 4000):
        k = rng.randint(1, 4)
        seq = [rng.choice("SSRRRxy" + "".join(str(i) for i in range(1, k + 1)) * 2) for _ in range(rng.randint(6, 24))]
        out.append(rep_case(seq, n, k))
        out[-1].tags = ["rep-random"]
        n += 1
    return out


def oracle(case, lines):
    if any(l.startswith(("PANIC", "ABORT", "TIMEOUT")) for l in lines):
        return "panic/abort"
    if not case.expect:
        return None
    it = iter(zip(case.ops, lines[1:]))
    res = list(it)
    if case.expect[0] == "rep-same-identity":
        _, f, g = case.expect
        rf = [l for op, l in res if op == f"poll {f}"][-1]
        rg = [l for op, l in res if op == f"poll {g}"][-1]
        w1 = [l for op, l in res if op == "wire 1"][-1]
        w2 = [l for op, l in res if op == "wire 2"][-1]
        if rf != "ready ok M[" + wg.show_frames([b"b1"]) + "]":
            return f"the request made on the new connection was not received: {rf[:80]}"
        if w1 != "wire .":
            return f"the reply to a request that came from the NEW connection was written to the OLD connection of that identity: {w1[:80]}"
        if rg != "ready ok" or w2 != "wire " + wg.show_wire([[b"", b"rb1"]]):
            return f"the connection the request came from did not get the reply: send={rg[:40]} wire={w2[:60]}"
        return None
    if case.expect[0] == "transient":
        _, npipes, msgs = case.expect
        for m in msgs:
            enc = zmtp.message(m).hex()
            total = 0
            for k in range(1, npipes + 1):
                w = "".join(l.split(" ", 1)[1] for op, l in res if op == f"wire {k}" and l != "wire .")
                total += w.count(enc)
            if total > 1:
                return (f"the message {wg.show_frames(m)} was written {total} times — after a transient write error the bytes "
                        "already encoded were encoded again")
        return None
    if case.expect[0] == "req-failed-send":
        _, nsrv, then = case.expect
        polls = [(op, l) for op, l in res if op.startswith("poll") and not l.startswith("ready ok id=")]
        if not polls[0][1].startswith("ready err") or "ReturnToSender" in polls[0][1]:
            return f"the send over the broken connection should have failed with the write error: {polls[0][1][:70]}"
        i = 1
        if then == "recv-then-send":
            if not polls[1][1].startswith("ready err"):
                return f"after a FAILED send nothing is outstanding, yet recv did not fail as out of turn: {polls[1][1][:70]}"
            i = 2
        second = polls[i][1]
        if nsrv == 1:
            if not second.startswith("ready err ReturnToSender"):
                return f"with the only server lost the next send must hand the message back: {second[:70]}"
            return None
        if second != "ready ok":
            return (f"after a FAILED send (nothing outstanding) the next, in-turn send was refused: {second[:90]} — the REQ "
                    "still believes a request is in progress")
        if polls[-1][1] != f"ready ok M[{wg.show_frames([b'answer'])}]":
            return f"the reply to the second request did not come back: {polls[-1][1][:70]}"
        return None
    if case.expect[0] == "rep-abandon":
        h = case.expect[1]
        second = next(l for op, l in res if op == f"poll {h}")
        if second == "ready ok" or second == "pending":
            return ("REP accepted a second reply although no new request had been received (the first reply had been "
                    f"accepted and then its send abandoned): {second}")
        wire = "".join(l.split(" ", 1)[1] for op, l in res if op == "wire 1" and l != "wire .")
        if (b"r2-unsolicited").hex() in wire:
            return "an unsolicited reply reached the client"
        return None
    if case.expect[0] == "req":
        awaiting = False
        replies = 0  # revealed, unconsumed
        consumed = 0
        i = 0
        while i < len(res):
            op, l = res[i]
            w = op.split()
            if w[0] == "send":
                pl, wl = res[i + 1][1], res[i + 2][1]
                payload = bytes.fromhex(w[3])
                if awaiting:
                    if pl != f"ready err ReturnToSender M[{w[3]}]":
                        return f"out-of-turn send not rejected with the message handed back intact: {pl}"
                    if wl != "wire .":
                        return f"out-of-turn send wrote to the wire: {wl}"
                else:
                    if pl != "ready ok":
                        return f"in-turn send failed: {pl}"
                    if wl != "wire " + wg.show_wire([[b"", payload]]):
                        return f"request wire is not [delimiter, payload]: {wl}"
                    awaiting = True
                i += 3
            elif w[0] == "recv":
                pl = res[i + 1][1]
                if not awaiting:
                    if not pl.startswith("ready err"):
                        return f"recv with no request outstanding was not rejected: {pl}"
                elif replies > 0:
                    consumed += 1
                    replies -= 1
                    if pl != f"ready ok M[{(b'rep%d' % consumed).hex()}]":
                        return f"recv did not return the next reply: {pl}"
                    awaiting = False
                elif pl != "pending":
                    return f"recv with no reply available should be pending: {pl}"
                i += 3
            elif w[0] == "reveal" and not w[2].startswith("ff0000"):
                replies += 1
                i += 1
            else:
                i += 1
        return None
    # REP
    _, seq, k = case.expect
    queued = {p: [] for p in range(1, k + 1)}
    current = None
    i = 0
    while i < len(res):
        op, l = res[i]
        w = op.split()
        if w[0] == "reveal" and not w[2].startswith("ff0000"):
            p = int(w[1])
            malformed = w[2] in (zmtp.message([b"solo"]).hex(), zmtp.message([b"env", b""]).hex())
            queued[p].append("bad" if malformed else None)
            i += 1
        elif w[0] == "recv":
            pl = res[i + 1][1]
            if pl.startswith("ready err"):
                # legitimate only for a malformed request at the head of some client's queue; it owes nobody a reply
                cands = [p for p, q in queued.items() if q and q[0] == "bad"]
                if not cands:
                    return f"recv failed although no malformed request was pending: {pl}"
                queued[cands[0]].pop(0) if len(cands) == 1 else [queued[p].pop(0) for p in cands[:1]]
            elif pl.startswith("ready ok M["):
                body = bytes.fromhex(pl[len("ready ok M["):-1]).decode()
                p = int(body[1 : body.index("q")])
                qn = int(body[body.index("q") + 1 :])
                if not queued.get(p) or queued[p][0] == "bad":
                    # a malformed one may have been skipped by an earlier failing recv of ANOTHER client; be exact per client
                    if not queued.get(p) or all(x == "bad" for x in queued[p]):
                        return f"recv returned a request that never arrived: {body}"
                queued[p].remove(None)
                current = p
            elif pl == "pending":
                if any(queued.values()):
                    return f"recv pending although a request is queued: {queued}"
            else:
                return f"unexpected recv result {pl}"
            i += 3
        elif w[0] == "send":
            pl = res[i + 1][1]
            wires = {int(res[i + 2 + j][0].split()[1]): res[i + 2 + j][1] for j in range(k)}
            payload = bytes.fromhex(w[3])
            if current is None:
                if pl != f"ready err ReturnToSender M[{w[3]}]":
                    return f"reply without a request was not rejected with the message handed back: {pl}"
                if any(v != "wire ." for v in wires.values()):
                    return f"rejected reply wrote to a wire: {wires}"
            else:
                if pl != "ready ok":
                    return f"reply failed: {pl}"
                for p, v in wires.items():
                    want = "wire " + wg.show_wire([[b"", payload]]) if p == current else "wire ."
                    if v != want:
                        return f"reply for client {current}: wire of client {p} is {v} (want {want})"
                current = None
            i += 2 + k
        else:
            i += 1
    return None


def nontrivial(case, lines):
    t = " ".join(lines)
    return "ready err" in t and "ready ok" in t


def signature(case, ml, il, o):
    return case.name.split("#")[0]
