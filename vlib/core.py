"""Orchestrator core: builds, regenerated tables, proof audit, correspondence runs, evidence."""
import hashlib
import json
import os
import re
import subprocess
import sys
import time

ROOT = os.path.dirname(os.path.dirname(os.path.abspath(__file__)))
LEAN = os.path.join(ROOT, "lean")
HARNESS = os.environ.get("VERIF_HARNESS_DIR") or os.path.join(ROOT, "harness")  # (development knob: a copy of the harness pointing at a scratch tree)
WORK = os.path.join(ROOT, ".work")
REPO = "/repo"
ALLOWED_AXIOMS = {"propext", "Classical.choice", "Quot.sound"}
FORBIDDEN = re.compile(
    r"\bsorry\b|\badmit\b|^axiom |native_decide|bv_decide|implemented_by|\bunsafe |maxHeartbeats 0", re.M
)

ENV = dict(os.environ)
ENV["CARGO_NET_OFFLINE"] = "true"
ENV.setdefault("CARGO_TERM_COLOR", "never")


def log(*a):
    print(*a, file=sys.stderr, flush=True)


def sh(cmd, cwd=None, timeout=None, input=None, env=None):
    return subprocess.run(
        cmd, cwd=cwd, timeout=timeout, input=input, env=env or ENV, capture_output=True, text=True
    )


# --------------------------------------------------------------------------- builds


def harness_bin():
    return os.path.join(HARNESS, "target", "debug", "zmqharness")


def model_bin():
    return os.path.join(LEAN, ".lake", "build", "bin", "zmqmodel")


def build_harness():
    """Rebuild the harness (and with it /repo's working tree, feature verif-hooks)."""
    t = time.time()
    r = sh(["cargo", "build", "--offline"], cwd=HARNESS, timeout=1800)
    if r.returncode != 0:
        return False, r.stderr[-4000:], time.time() - t
    return True, "", time.time() - t


def regen_tables():
    """Dump the finite tables from the real code into Gen/Tables.lean (written only if changed)."""
    r = sh([harness_bin(), "tables"], timeout=120)
    if r.returncode != 0:
        return False, "tables dump failed: " + r.stderr[-2000:]
    path = os.path.join(LEAN, "ZmqVerif", "Gen", "Tables.lean")
    old = open(path).read() if os.path.exists(path) else None
    if old != r.stdout:
        with open(path, "w") as f:
            f.write(r.stdout)
        return True, "changed"
    return True, "unchanged"


def lake_build(targets):
    t = time.time()
    r = sh(["lake", "build"] + targets, cwd=LEAN, timeout=3600)
    ok = r.returncode == 0
    return ok, (r.stdout + r.stderr), time.time() - t


def theorems_of(prop_file):
    src = open(prop_file).read()
    ns = re.findall(r"^namespace\s+(\S+)", src, re.M)
    ns = ns[0] if ns else ""
    names = re.findall(r"^theorem\s+(\S+)", src, re.M)
    return ns, names


def strip_comments(src):
    src = re.sub(r"/-.*?-/", "", src, flags=re.S)
    src = re.sub(r"--.*", "", src)
    return src


def forbidden_tokens():
    """grep the Lean sources (comments stripped) for constructs that would void a proof."""
    hits = []
    for base, _, files in os.walk(os.path.join(LEAN, "ZmqVerif")):
        for fn in files:
            if fn.endswith(".lean"):
                p = os.path.join(base, fn)
                src = strip_comments(open(p).read())
                for m in FORBIDDEN.finditer(src):
                    hits.append(f"{os.path.relpath(p, LEAN)}: {m.group(0).strip()}")
    return hits


def audit(prop_id):
    """#print axioms for every theorem of Props/<id>.lean; returns (obligations, discharged, detail)."""
    prop_file = os.path.join(LEAN, "ZmqVerif", "Props", f"{prop_id}.lean")
    ns, names = theorems_of(prop_file)
    os.makedirs(WORK, exist_ok=True)
    af = os.path.join(WORK, f"Audit_{prop_id}.lean")
    with open(af, "w") as f:
        f.write(f"import ZmqVerif.Props.{prop_id}\n")
        for n in names:
            f.write(f"#print axioms {ns + '.' if ns else ''}{n}\n")
    r = sh(["lake", "env", "lean", af], cwd=LEAN, timeout=1800)
    out = r.stdout + r.stderr
    detail = {}
    # "'X' depends on axioms: [a, b]"  |  "'X' does not depend on any axioms"
    for m in re.finditer(r"'([^']+)' depends on axioms: \[([^\]]*)\]", out, re.S):
        detail[m.group(1)] = [a.strip() for a in m.group(2).replace("\n", " ").split(",") if a.strip()]
    for m in re.finditer(r"'([^']+)' does not depend on any axioms", out):
        detail[m.group(1)] = []
    discharged = 0
    bad = []
    for n in names:
        full = (ns + "." if ns else "") + n
        if full in detail and set(detail[full]) <= ALLOWED_AXIOMS:
            discharged += 1
        else:
            bad.append((full, detail.get(full, "missing")))
    return len(names), discharged, {"axioms": detail, "bad": bad, "raw": out[-2000:] if bad else ""}


# --------------------------------------------------------------------------- correspondence


def tree_fingerprint():
    """sha256 over the library sources of /repo's WORKING TREE (src/**/*.rs, Cargo.toml, Cargo.lock)"""
    h = hashlib.sha256()
    files = []
    for base, _, fs in os.walk(os.path.join(REPO, "src")):
        files += [os.path.join(base, f) for f in fs if f.endswith(".rs")]
    files += [os.path.join(REPO, "Cargo.toml"), os.path.join(REPO, "Cargo.lock")]
    for f in sorted(files):
        try:
            data = open(f, "rb").read()
        except OSError:
            data = b"<missing>"
        h.update(os.path.relpath(f, REPO).encode() + b"\0" + data + b"\0")
    return h.hexdigest()


def tree_changed():
    """does /repo's working tree differ from the tree the checks were last validated on (baseline_fingerprint.json,
    written by tools/fingerprint.py)?  Used ONLY to decide how much to explore: a changed tree gets extra seeded rounds
    of every random family in the quick tier.  It never decides a verdict."""
    try:
        base = json.load(open(os.path.join(ROOT, "baseline_fingerprint.json")))["sha256"]
    except (OSError, ValueError, KeyError):
        return False
    return tree_fingerprint() != base


class Case:
    __slots__ = ("name", "engine", "ops", "tags", "expect")

    def __init__(self, name, engine, ops, tags=None, expect=None):
        self.name = name
        self.engine = engine
        self.ops = ops  # list of op lines, WITHOUT the leading `case` line
        self.tags = tags or []
        self.expect = expect  # optional python oracle: f(case, impl_lines) -> None | str

    def text(self):
        return "case " + self.name + "\n" + "\n".join(self.ops) + "\n"

    def key(self):
        return hashlib.sha1(("\n".join(self.ops)).encode()).hexdigest()


def _run_lines(binary, engine, text, timeout, extra_env=None):
    env = dict(ENV)
    if extra_env:
        env.update(extra_env)
    try:
        r = subprocess.run(
            [binary, engine], input=text, capture_output=True, text=True, timeout=timeout, env=env
        )
        return r.returncode, r.stdout.split("\n")[:-1] if r.stdout.endswith("\n") else r.stdout.split("\n"), r.stderr
    except subprocess.TimeoutExpired as e:
        out = e.stdout.decode() if isinstance(e.stdout, bytes) else (e.stdout or "")
        return -999, out.split("\n")[:-1], "timeout"


def _split(cases, lines):
    """cut the output stream back into per-case chunks (one line per op + the case line)"""
    res = []
    i = 0
    for c in cases:
        n = 1 + len(c.ops)
        res.append(lines[i : i + n])
        i += n
    return res


FLUSHING = {"codec", "world", "net"}  # engines whose harness loop flushes after every line


def _run_watch(binary, engine, text, timeout, stall, extra_env=None):
    """like _run_lines, but kills the process when it has produced no new line for `stall` seconds
    (a hang is an outcome, not something to wait 10 minutes for).  Returns (rc, lines, why)."""
    import threading
    import time

    env = dict(ENV)
    if extra_env:
        env.update(extra_env)
    p = subprocess.Popen([binary, engine], stdin=subprocess.PIPE, stdout=subprocess.PIPE, stderr=subprocess.DEVNULL,
                         text=True, env=env)
    lines = []
    last = [time.time()]

    def feed():
        try:
            p.stdin.write(text)
            p.stdin.close()
        except (BrokenPipeError, OSError):
            pass

    def read():
        for l in p.stdout:
            lines.append(l.rstrip("\n"))
            last[0] = time.time()

    tf = threading.Thread(target=feed, daemon=True)
    tr = threading.Thread(target=read, daemon=True)
    tf.start()
    tr.start()
    t0 = time.time()
    why = None
    while p.poll() is None:
        time.sleep(0.05)
        now = time.time()
        if now - last[0] > stall:
            why = "stall"
        elif now - t0 > timeout:
            why = "timeout"
        if why:
            p.kill()
            break
    p.wait()
    tr.join(5)
    return (-999 if why else p.returncode), list(lines), why


MAX_HANGS = 4  # after this many hung/aborted cases in one batch the rest is not run (the check has failed anyway)


def not_run(lines):
    return len(lines) > 1 and lines[1] == "NOT-RUN"


STALL = {"world": 20, "codec": 30, "net": 45}  # seconds without a new output line before the process counts as hung


def run_impl(engine, cases, timeout=600, extra_env=None, stall=None, _hangs=0):
    """Run the real code on the cases.  A crash (abort/stack overflow/hang) is isolated and recorded as
    the outcome of the case that caused it: engines that flush every line name the culprit directly (the
    case in which the output stopped); the others are bisected."""
    if not cases:
        return []
    text = "".join(c.text() for c in cases)
    want = sum(1 + len(c.ops) for c in cases)
    stall = stall or STALL.get(engine, 45)
    if engine in FLUSHING:
        if _hangs >= MAX_HANGS:
            return [["case " + c.name] + ["NOT-RUN"] * len(c.ops) for c in cases]
        rc, lines, why = _run_watch(harness_bin(), engine, text, timeout, stall, extra_env)
        if rc == 0 and len(lines) == want:
            return _split(cases, lines)
        # the case in which the output stopped
        i, idx = 0, len(cases) - 1
        for k, c in enumerate(cases):
            n = 1 + len(c.ops)
            if len(lines) < i + n:
                idx = k
                break
            i += n
        tag = "TIMEOUT" if rc == -999 else f"ABORT rc={rc}"
        got = lines[i : i + 1 + len(cases[idx].ops)]
        got += [tag] * (1 + len(cases[idx].ops) - len(got))
        return (_split(cases[:idx], lines[:i]) + [got]
                + run_impl(engine, cases[idx + 1 :], timeout, extra_env, stall, _hangs + 1))
    rc, lines, err = _run_lines(harness_bin(), engine, text, timeout, extra_env)
    if rc == 0 and len(lines) == want:
        return _split(cases, lines)
    if len(cases) == 1:
        tag = "TIMEOUT" if rc == -999 else f"ABORT rc={rc}"
        got = lines[: 1 + len(cases[0].ops)]
        got += [tag] * (1 + len(cases[0].ops) - len(got))
        return [got]
    mid = len(cases) // 2
    return run_impl(engine, cases[:mid], timeout, extra_env) + run_impl(engine, cases[mid:], timeout, extra_env)


def run_model(engine, cases, timeout=1200):
    if not cases:
        return []
    text = "".join(c.text() for c in cases)
    rc, lines, err = _run_lines(model_bin(), engine, text, timeout)
    want = sum(1 + len(c.ops) for c in cases)
    if rc != 0 or len(lines) != want:
        if len(cases) == 1:
            got = lines[: 1 + len(cases[0].ops)]
            got += [f"MODEL-CRASH rc={rc}"] * (1 + len(cases[0].ops) - len(got))
            return [got]
        mid = len(cases) // 2
        return run_model(engine, cases[:mid], timeout) + run_model(engine, cases[mid:], timeout)
    return _split(cases, lines)


def line_matches(model_line, impl_line):
    """the model may offer alternatives (`a || b`) where the code is genuinely nondeterministic"""
    if model_line == impl_line:
        return True
    if " || " in model_line:
        return impl_line in model_line.split(" || ")
    return False


def first_diff(model_lines, impl_lines):
    for i, (m, r) in enumerate(zip(model_lines, impl_lines)):
        if not line_matches(m, r):
            return i
    if len(model_lines) != len(impl_lines):
        return min(len(model_lines), len(impl_lines))
    return None


def shrink(case, still_fails, budget=60):
    """greedy ddmin over the op list (each candidate re-runs model and implementation)"""
    ops = list(case.ops)
    n = 2
    runs = 0
    while len(ops) >= 2 and runs < budget:
        chunk = max(1, len(ops) // n)
        reduced = False
        for i in range(0, len(ops), chunk):
            cand = ops[:i] + ops[i + chunk :]
            if not cand:
                continue
            runs += 1
            if still_fails(Case(case.name, case.engine, cand, case.tags, case.expect)):
                ops = cand
                n = max(n - 1, 2)
                reduced = True
                break
            if runs >= budget:
                break
        if not reduced:
            if chunk == 1:
                break
            n = min(len(ops), n * 2)
    return Case(case.name, case.engine, ops, case.tags, case.expect)


# --------------------------------------------------------------------------- findings / evidence


def load_known():
    p = os.path.join(ROOT, "known_findings.json")
    if not os.path.exists(p):
        return {"known": [], "fixed": []}
    return json.load(open(p))


def write_replay(prop_id, idx, payload):
    d = os.path.join(ROOT, "replays")
    os.makedirs(d, exist_ok=True)
    p = os.path.join(d, f"{prop_id}-{idx}.json")
    with open(p, "w") as f:
        json.dump(payload, f, indent=1)
    return os.path.relpath(p, ROOT)


def write_evidence(prop_id, ev):
    d = os.path.join(ROOT, "evidence")
    os.makedirs(d, exist_ok=True)
    with open(os.path.join(d, f"{prop_id}.json"), "w") as f:
        json.dump(ev, f, indent=1)
