"""Build ZMTP 3.0 byte strings for the raw-peer side of the cases (python, independent of both the
library and the Lean model)."""
import struct


def greeting(major=3, minor=0, mech=b"NULL", as_server=0, sig0=0xFF, sig9=0x7F):
    g = bytearray(64)
    g[0] = sig0
    g[9] = sig9
    g[10] = major
    g[11] = minor
    g[12 : 12 + len(mech)] = mech
    g[32] = as_server
    return bytes(g)


def frame(body, more=False, command=False, force_long=False):
    flags = (1 if more else 0) | (4 if command else 0)
    if len(body) > 255 or force_long:
        return bytes([flags | 2]) + struct.pack(">Q", len(body)) + body
    return bytes([flags, len(body)]) + body


def message(frames):
    out = b""
    for i, f in enumerate(frames):
        out += frame(f, more=(i != len(frames) - 1))
    return out


def command_body(name, props):
    b = bytes([len(name)]) + name
    for k, v in props:
        b += bytes([len(k)]) + k + struct.pack(">I", len(v)) + v
    return b


def command(name, props):
    return frame(command_body(name, props), command=True)


def ready(socket_type=None, identity=None, extra=()):
    props = []
    if socket_type is not None:
        props.append((b"Socket-Type", socket_type if isinstance(socket_type, bytes) else socket_type.encode()))
    if identity is not None:
        props.append((b"Identity", identity))
    props.extend(extra)
    return command(b"READY", props)


def hx(b):
    return b.hex() if len(b) else "."
