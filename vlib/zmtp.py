"""Build ZMTP 3.0 byte strings for the raw-peer side of the cases (python, independent of both the
library and the Lean model)."""
import struct


def greeting(major=3, minor=0, mech=b"NULL", as_server=0, sig0=0xFF, sig9=0x7F):
    g = bytearray(64)
    g[0] = sig0
    g[9] = sig9
    g[10] = major
    g[11] = minor
    g[12 : 12 + len(mech)] = mech
    g[32] = as_server
    return bytes(g)


def frame(body, more=False, command=False, force_long=False):
    flags = (1 if more else 0) | (4 if command else 0)
    if len(body) > 255 or force_long:
        return bytes([flags | 2]) + struct.pack(">Q", len(body)) + body
    return bytes([flags, len(body)]) + body


def message(frames):
    out = b""
    for i, f in enumerate(frames):
        out += frame(f, more=(i != len(frames) - 1))
    return out


def command_body(name, props):
    b = bytes([len(name)]) + name
    for k, v in props:
        b += bytes([len(k)]) + k + struct.pack(">I", len(v)) + v
    return b


def command(name, props):
    return frame(command_body(name, props), command=True)


def ready(socket_type=None, identity=None, extra=()):
    props = []
    if socket_type is not None:
        props.append((b"Socket-Type", socket_type if isinstance(socket_type, bytes) else socket_type.encode()))
    if identity is not None:
        props.append((b"Identity", identity))
    props.extend(extra)
    return command(b"READY", props)


def hx(b):
    return b.hex() if len(b) else "."


def parse_greeting(g):
    """reference check of a 64-byte ZMTP 3.x greeting; returns (major, minor, mechanism, as_server) or a string (what is wrong)"""
    if len(g) != 64:
        return f"greeting has {len(g)} bytes"
    if g[0] != 0xFF or g[9] != 0x7F:
        return "bad signature"
    if any(g[1:9]):
        return "signature padding not zero"
    mech = g[12:32]
    name = mech.rstrip(b"\x00")
    if b"\x00" in name:
        return "mechanism not NUL-padded"
    if any(g[33:64]):
        return "filler not zero"
    return (g[10], g[11], name, g[32])


def parse_frames(data):
    """strict RFC 23 framing: list of (flags, body); raises ValueError on anything malformed or left over"""
    out = []
    i = 0
    while i < len(data):
        fl = data[i]
        if fl & ~7:
            raise ValueError(f"reserved flag bits set: {fl:#x}")
        if fl & 2:
            if i + 9 > len(data):
                raise ValueError("truncated long size")
            n = int.from_bytes(data[i + 1:i + 9], "big")
            i += 9
            if n <= 255:
                raise ValueError(f"long size used for a body of {n} bytes")
        else:
            if i + 2 > len(data):
                raise ValueError("truncated short size")
            n = data[i + 1]
            i += 2
        if i + n > len(data):
            raise ValueError("truncated body")
        out.append((fl, data[i:i + n]))
        i += n
    return out


def parse_command(body):
    """(name, [(key, value)]) of a command body; raises ValueError"""
    if not body or 1 + body[0] > len(body):
        raise ValueError("bad command name")
    name = body[1:1 + body[0]]
    i = 1 + body[0]
    props = []
    while i < len(body):
        kl = body[i]
        if i + 1 + kl + 4 > len(body):
            raise ValueError("truncated property")
        k = body[i + 1:i + 1 + kl]
        vl = int.from_bytes(body[i + 1 + kl:i + 5 + kl], "big")
        v = body[i + 5 + kl:i + 5 + kl + vl]
        if len(v) != vl:
            raise ValueError("truncated property value")
        props.append((k, v))
        i += 5 + kl + vl
    return name, props
