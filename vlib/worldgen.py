"""Builders for `world` engine cases: real sockets + scripted pipes + futures polled one at a time."""
from vlib import zmtp
from vlib.core import Case

TYPES9 = ["PUB", "SUB", "REQ", "REP", "DEALER", "ROUTER", "PULL", "PUSH", "XPUB"]
ALL12 = ["PAIR", "PUB", "SUB", "REQ", "REP", "DEALER", "ROUTER", "PULL", "PUSH", "XPUB", "XSUB", "STREAM"]
# RFC 28/29/30: who may talk to whom (typed in from the RFCs, independent of the code's table)
COMPAT = {
    "PAIR": ["PAIR"], "PUB": ["SUB", "XSUB"], "SUB": ["PUB", "XPUB"], "REQ": ["REP", "ROUTER"],
    "REP": ["REQ", "DEALER"], "DEALER": ["REP", "DEALER", "ROUTER"], "ROUTER": ["REQ", "DEALER", "ROUTER"],
    "PULL": ["PUSH"], "PUSH": ["PULL"], "XPUB": ["SUB", "XSUB"], "XSUB": ["PUB", "XPUB"], "STREAM": [],
}
CAN_RECV = {"SUB", "REQ", "REP", "DEALER", "ROUTER", "PULL", "XPUB"}
CAN_SEND = {"PUB", "REQ", "REP", "DEALER", "ROUTER", "PUSH", "XPUB"}
G = zmtp.greeting()


def hx(b):
    return b.hex() if len(b) else "."


def msg_tok(frames):
    return ",".join(hx(f) for f in frames)


def placeholder(n):
    return bytes([0xA7] * 15 + [n])


class Script:
    """accumulates op lines; hands out fresh future ids"""

    def __init__(self):
        self.ops = []
        self.nf = 0

    def fut(self):
        self.nf += 1
        return self.nf

    def add(self, *ops):
        self.ops.extend(ops)

    def sock(self, s, typ, ident=None):
        self.add(f"sock {s} {typ}" + (f" {hx(ident)}" if ident else ""))

    def attach(self, s, p, peer_type, ident=None, polls=1, extra=b""):
        """complete handshake of pipe p onto socket s with a raw peer of the given type"""
        f = self.fut()
        self.add(f"attach {f} {s} {p}", f"reveal {p} {hx(G + zmtp.ready(peer_type, ident) + extra)}")
        for _ in range(polls):
            self.add(f"poll {f}")
        return f

    def recv_once(self, s):
        f = self.fut()
        self.add(f"recv {f} {s}", f"poll {f}")
        return f

    def send_once(self, s, frames):
        f = self.fut()
        self.add(f"send {f} {s} {msg_tok(frames)}", f"poll {f}")
        return f

    def reveal_msg(self, p, frames):
        self.add(f"reveal {p} {hx(zmtp.message(frames))}")

    def case(self, name, tags):
        return Case(name, "world", list(self.ops), tags)


def random_case(rng, name, types=None, length=(15, 45), tags=("random",)):
    """mostly-valid random schedules over a small universe: the model must predict every line"""
    sc = Script()
    types = types or TYPES9
    nsock = rng.randint(1, 2)
    socks = {}
    sock_ident = {}
    for s in range(1, nsock + 1):
        t = rng.choice(types)
        ident = rng.choice([None, None, b"S%d" % s])
        sc.sock(s, t, ident)
        socks[s] = t
        sock_ident[s] = ident
    pipes = {}  # p -> dict(sock, attached(bool), peer_type)
    futs = {}  # f -> kind
    np = 0
    topics = [b"", b"a", b"ab", b"b"]
    payloads = [[b"x"], [b"a", b"b"], [b""], [b"ab", b"", b"c"], [b"", b"q"], [b"a" * 300], [b"k", b""], [b"", b""]]
    live_socks = set(socks)
    for _ in range(rng.randint(*length)):
        r = rng.random()
        if not live_socks:
            break
        s = rng.choice(sorted(live_socks))
        t = socks[s]
        if r < 0.14 and np < 4:
            np += 1
            compat = COMPAT[t]
            pt = rng.choice(compat) if (compat and rng.random() < 0.85) else rng.choice(ALL12 + ["BOGUS"])
            ident = rng.choice([None, None, b"", b"p%d" % np, bytes([64 + np]) * 255, b"J" * 256])
            # a peer that connects under an identity ANOTHER connection of the same socket already announced (a client
            # that reconnects before its old connection's end was seen / two clients configured alike).  Not on PUB:
            # which of the two reader tasks wins a race there is `select!`'s pick
            mine = [q for q in pipes if pipes[q]["sock"] == s and pipes[q].get("ident")]
            if mine and t != "PUB" and rng.random() < 0.2:
                ident = pipes[rng.choice(mine)]["ident"]
            if rng.random() < 0.75:
                f = sc.attach(s, np, pt, ident)
            elif rng.random() < 0.3:
                # a join ABANDONED part-way (the connect() future dropped by a timeout, the handshake task dropped with its
                # listener): the connection must simply go away — nothing registered, both halves released
                f = sc.fut()
                stream = G + zmtp.ready(pt, ident)
                cut = rng.choice([0, 10, 64, 70, len(stream)])
                sc.add(f"attach {f} {s} {np}")
                if rng.random() < 0.5 and sock_ident[s] is None and t != "SUB":
                    # (with a configured identity the READY has two properties, written in HashMap order: a write cut
                    # short by the credit would make the bytes on the wire depend on that order)
                    sc.add(f"credit {np} {rng.choice([0, 10, 64, 70, 64 + 27, 64 + 27 + 3])}")
                if cut:
                    sc.add(f"reveal {np} {hx(stream[:cut])}")
                sc.add(f"poll {f}", f"drop {f}", f"credit {np} inf")
            else:
                # handshake delivered in pieces
                f = sc.fut()
                stream = G + zmtp.ready(pt, ident)
                cut = rng.randrange(1, len(stream))
                sc.add(f"attach {f} {s} {np}", f"poll {f}", f"reveal {np} {hx(stream[:cut])}", f"poll {f}",
                       f"reveal {np} {hx(stream[cut:])}", f"poll {f}")
            pipes[np] = dict(sock=s, peer=pt, ident=ident if ident and len(ident) <= 255 else None)
            sc.add(f"wire {np}", f"halves {np}")
            for q in sorted(pipes):
                if q != np and pipes[q]["sock"] == s and pipes[q].get("ident") == pipes[np]["ident"] and pipes[np]["ident"]:
                    sc.add(f"halves {q}")
        elif r < 0.36 and pipes:
            p = rng.choice(sorted(pipes))
            pt = pipes[p]["peer"]
            lt = socks[pipes[p]["sock"]]
            frames = rng.choice(payloads)
            if lt in ("PUB", "XPUB") and rng.random() < 0.8:
                frames = [bytes([rng.choice([0, 1, 1, 2])]) + rng.choice(topics)]
            elif lt == "REP" and rng.random() < 0.8:
                frames = rng.choice([[b""], [b"r1", b""], []]) + rng.choice(payloads)
            elif lt == "REQ" and rng.random() < 0.8:
                frames = [b""] + rng.choice(payloads)
            data = zmtp.message(frames)
            if rng.random() < 0.07:
                # a COMMAND frame in the middle of the traffic (a redundant READY: the only command this library parses) —
                # the fair-queue sockets ignore it, REQ reports it as the (failed) answer to its request
                data = zmtp.ready(pt, None) + (data if rng.random() < 0.5 else b"")
            if rng.random() < 0.25 and len(data) > 1:
                c = rng.randrange(1, len(data))
                sc.add(f"reveal {p} {hx(data[:c])}")
                if rng.random() < 0.5:
                    sc.add(f"reveal {p} {hx(data[c:])}")
            else:
                sc.add(f"reveal {p} {hx(data)}")
        elif r < 0.56 and t in CAN_RECV:
            f = sc.fut()
            sc.add(f"recv {f} {s}", f"poll {f}")
            if rng.random() < 0.3:
                sc.add(f"poll {f}")
            sc.add(f"drop {f}")
        elif r < 0.74 and t in CAN_SEND:
            f = sc.fut()
            frames = rng.choice(payloads)
            if t == "ROUTER":
                tgt = rng.choice([placeholder(0), placeholder(1), b"p1", b"p2", b"nobody", b""])
                frames = [tgt] + frames
            if t in ("PUB", "XPUB"):
                frames = [rng.choice([b"", b"a", b"ab", b"abc", b"b"])] + rng.choice([[], [b"body"]])
            sc.add(f"send {f} {s} {msg_tok(frames)}", f"poll {f}")
            if rng.random() < 0.3:
                sc.add(f"poll {f}")
            sc.add(f"drop {f}")
            for p in sorted(pipes):
                if pipes[p]["sock"] == s:
                    sc.add(f"wire {p}")
        elif r < 0.80 and t == "SUB":
            f = sc.fut()
            sc.add(f"{rng.choice(['sub', 'sub', 'unsub'])} {f} {s} {hx(rng.choice(topics))}", f"poll {f}", f"drop {f}")
            for p in sorted(pipes):
                if pipes[p]["sock"] == s:
                    sc.add(f"wire {p}")
        elif r < 0.84 and pipes:
            p = rng.choice(sorted(pipes))
            sc.add(rng.choice([f"eof {p}", f"eof {p}", f"rderr {p} ConnectionReset", f"rderr {p} TimedOut"]))
        elif r < 0.88 and pipes:
            p = rng.choice(sorted(pipes))
            if socks[pipes[p]["sock"]] == "SUB":
                # SUB walks its peers in hash order: a stalled peer would make the others' wires order-dependent
                sc.add(rng.choice([f"credit {p} inf", f"wrerr {p} BrokenPipe", f"wrerr {p} ConnectionReset", f"wrerr1 {p} Interrupted",
                                   f"wrerr1 {p} TimedOut"]))
            else:
                # (wrerr1 = a TRANSIENT error: exactly one write fails)
                sc.add(rng.choice([f"credit {p} {rng.choice([0, 1, 3, 10, 100])}", f"credit {p} inf", f"wrerr {p} BrokenPipe",
                                   f"wrerr {p} ConnectionReset", f"wrerr {p} TimedOut", f"wrerr1 {p} Interrupted",
                                   f"wrerr1 {p} WouldBlock", f"wrerr1 {p} BrokenPipe", f"wrerr1 {p} TimedOut"]))
        elif r < 0.93:
            sc.add("drain")
        elif r < 0.95:
            sc.add(f"dropsock {s}")
            live_socks.discard(s)
        else:
            for p in sorted(pipes):
                sc.add(f"halves {p}")
    sc.add("drain")
    for p in sorted(pipes):
        sc.add(f"wire {p}", f"halves {p}")
    return sc.case(name, list(tags))


# --------------------------------------------------------------------------- symbolic frames
# a frame is either bytes (literal) or ("gen", length, seed): contents produced from (len, seed) on
# both sides, so that large bodies never travel as hex


def ftok(f):
    if isinstance(f, tuple):
        return f"@{f[1]}:{f[2]}" if f[1] > 0 else "."
    return hx(f)


def flen(f):
    return f[1] if isinstance(f, tuple) else len(f)


def mtok(frames):
    """message token for `send`"""
    return ",".join(ftok(f) for f in frames)


def wire_tok(frames):
    """byte token (for `reveal`) of the ZMTP encoding of a message whose frames may be symbolic"""
    parts = []
    for i, f in enumerate(frames):
        more = i != len(frames) - 1
        n = flen(f)
        if n > 255:
            hdr = bytes([3 if more else 2]) + n.to_bytes(8, "big")
        else:
            hdr = bytes([1 if more else 0, n])
        parts.append(hdr.hex())
        if n > 0:
            parts.append(ftok(f))
    return "+".join(parts)


def show_frames(frames):
    """canonical text of a message as both engines print it"""
    from vlib import gen

    return ",".join(gen.show_bytes_tok(ftok(f)) for f in frames)


def show_wire(frames_list):
    """canonical text of the wire bytes of a sequence of messages"""
    from vlib import gen

    tok = "+".join(wire_tok(fr) for fr in frames_list)
    return gen.show_bytes_tok(tok) if tok else "."


def wake_contract(case, lines):
    """the Future contract, judged on the implementation's trace: `woken f` directly followed by `poll f` —
    if the poll returns Ready although the future was Pending before and its own waker has not fired since, a real
    executor would never have polled it again (lost wake-up)"""
    ops = list(zip(case.ops, lines[1:]))
    for i in range(len(ops) - 1):
        op, l = ops[i]
        nop, nl = ops[i + 1]
        if op.startswith("woken ") and l == "woken no" and nop == "poll " + op.split()[1] and nl.startswith("ready "):
            return (f"future {op.split()[1]} was Pending, became ready ({nl[:60]}) but its waker was never woken: "
                    "on an executor this call hangs (lost wake-up)")
    return None


# --------------------------------------------------------------------------- reconnect under a registered identity
FQ_PEER = {"PULL": "PUSH", "SUB": "PUB", "DEALER": "ROUTER", "ROUTER": "DEALER", "REP": "REQ", "XPUB": "SUB"}


def reconnect_parked_cases():
    """A peer connects again under an identity that is STILL registered (the socket has not noticed the old
    connection's end yet, or the old connection is simply still there) while a recv is parked on the old stream:
    the new connection's stream must be polled — the pending recv is woken and the message sent on the new
    connection is delivered, once."""
    out = []
    n = 0
    for t, pt in FQ_PEER.items():
        good = {"REP": [b"", b"hello"], "XPUB": [b"\x01topic"]}.get(t, [b"hello"])
        for served_before in (False, True):
            for old_end in ("open", "eof"):
                for msg_first in (False, True):
                    sc = Script()
                    sc.sock(1, t)
                    sc.attach(1, 1, pt, b"same")
                    if served_before:
                        sc.reveal_msg(1, good)
                        sc.recv_once(1)
                    f = sc.fut()
                    sc.add(f"recv {f} 1", f"poll {f}")              # parks on the old stream
                    if old_end == "eof" and not served_before:
                        pass
                    g = sc.fut()
                    stream = G + zmtp.ready(pt, b"same")
                    if msg_first:
                        stream += zmtp.message(good)
                    sc.add(f"attach {g} 1 2", f"reveal 2 {hx(stream)}", f"poll {g}", f"woken {f}")
                    if old_end == "eof":
                        sc.add("eof 1")
                    if not msg_first:
                        sc.reveal_msg(2, good)
                    sc.add(f"poll {f}", f"poll {f}", "halves 1", "halves 2")
                    c = sc.case(f"reconnect-parked-{t}#{n}", ["reconnect-parked"])
                    want = {"REP": [b"hello"], "ROUTER": [b"same", b"hello"]}.get(t, good)
                    c.expect = ("reconnect-parked", f, want)
                    out.append(c)
                    n += 1
    return out


def reconnect_abandoned_cases():
    """A peer is admitted under an announced identity X; the application polls recv (nothing there) k times and ABANDONS
    the call, r times over; then a SECOND connection completes a valid handshake announcing the same X — while the first
    is still open, or closed but not yet noticed — and sends: it has become a peer (C04), and what it sends is delivered
    by later recv calls exactly as if no recv had been abandoned before (C14)."""
    out = []
    n = 0
    for t, pt in FQ_PEER.items():
        good = [{"REP": [b"", b"m%d" % i], "XPUB": [b"\x01m%d" % i]}.get(t, [b"m%d" % i]) for i in (1, 2)]
        for polls, repeats in ((0, 1), (1, 1), (2, 1), (1, 3)):
            for old_end in ("open", "eof"):
                sc = Script()
                sc.sock(1, t)
                sc.attach(1, 1, pt, b"same")
                for _ in range(repeats):
                    f = sc.fut()
                    sc.add(f"recv {f} 1")
                    for _ in range(polls):
                        sc.add(f"poll {f}")
                    sc.add(f"drop {f}")
                if old_end == "eof":
                    sc.add("eof 1")
                g = sc.fut()
                sc.add(f"attach {g} 1 2", f"reveal 2 {hx(G + zmtp.ready(pt, b'same'))}", f"poll {g}")
                for m in good:
                    sc.reveal_msg(2, m)
                futs = []
                for _ in range(len(good) + 2):
                    f = sc.fut()
                    if t == "REP":
                        sc.add(f"recv {f} 1", f"poll {f}", f"drop {f}")
                        h = sc.fut()
                        sc.add(f"send {h} 1 {msg_tok([b'r'])}", f"poll {h}", f"drop {h}")
                    else:
                        sc.add(f"recv {f} 1", f"poll {f}", f"drop {f}")
                    futs.append(f)
                c = sc.case(f"reconnect-abandoned-{t}-{polls}x{repeats}-{old_end}#{n}", ["reconnect-abandoned"])
                want = [{"REP": m[1:], "ROUTER": [b"same"] + m}.get(t, m) for m in good]
                c.expect = ("reconnect-abandoned", g, futs, want)
                out.append(c)
                n += 1
    return out


def reconnect_abandoned_oracle(case, lines):
    if any(l.startswith(("PANIC", "ABORT", "TIMEOUT")) for l in lines):
        return "panic/abort"
    _, g, futs, want = case.expect
    res = list(zip(case.ops, lines[1:]))
    adm = [l for op, l in res if op == f"poll {g}"][-1]
    if not adm.startswith("ready ok id="):
        return f"a well-formed compatible peer announcing an identity that is already registered was rejected: {adm}"
    got = [l for op, l in res if op.startswith("poll") and l.startswith("ready ok M[")]
    wantl = ["ready ok M[" + show_frames(m) + "]" for m in want]
    if got != wantl:
        return (f"the second connection under the identity completed a valid handshake and was admitted, but what it sent is not "
                f"delivered: later recv calls returned {got} (want {wantl}) — it never became a peer / abandoned recv calls changed "
                "what later calls deliver")
    return None


def reconnect_parked_oracle(case, lines):
    if any(l.startswith(("PANIC", "ABORT", "TIMEOUT")) for l in lines):
        return "panic/abort"
    _, f, good = case.expect
    res = list(zip(case.ops, lines[1:]))
    wk = [l for op, l in res if op == f"woken {f}"]
    polls = [l for op, l in res if op == f"poll {f}"]
    got = [l for l in polls if l.startswith("ready ok M[")]
    if wk and wk[0] == "woken no" and not got:
        return ("a recv was parked; a peer connected under the identity of a still-registered connection and sent a message: "
                f"the receiver was not woken and the message is never delivered (polls: {polls})")
    if not got:
        return f"the message sent on the new connection of a re-registered identity is never delivered: {polls}"
    if not got[0].endswith(show_frames(good) + "]"):
        return f"recv returned {got[0]} — not the message sent on the new connection ({show_frames(good)})"
    if wk and wk[0] == "woken no":
        return "the pending recv was not woken when a connection was registered (lost wake-up; a re-poll found the message)"
    return None
