"""Helpers for `net` engine cases (real runtime, TCP/IPC, raw peers)."""
import os
import subprocess

from vlib import core
from vlib.core import Case

PEER = {"PULL": "PUSH", "SUB": "PUB", "DEALER": "ROUTER", "ROUTER": "DEALER", "REP": "REQ", "XPUB": "SUB",
        "PUB": "SUB", "PUSH": "PULL", "REQ": "REP"}
TYPES9 = list(PEER)
_caps = None


def caps():
    """which transports exist in this sandbox (probed on the real harness, recorded in the evidence)"""
    global _caps
    if _caps is None:
        try:
            r = subprocess.run([core.harness_bin(), "net"], input="caps\n", capture_output=True, text=True, timeout=60,
                               env=net_env())
            line = r.stdout.strip().split("\n")[0]
            _caps = {"v6": "v6=1" in line, "ipc": "ipc=1" in line}
        except Exception:
            _caps = {"v6": False, "ipc": True}
    return _caps


def net_env():
    d = os.path.join(core.WORK, "ipc")
    os.makedirs(d, exist_ok=True)
    return {"VERIF_IPC_DIR": d}


def transports():
    c = caps()
    return ["tcp4"] + (["tcp6"] if c["v6"] else []) + (["ipc"] if c["ipc"] else [])


def hs_len(t):
    """bytes of greeting + READY a raw peer of socket type t sends"""
    return 64 + 2 + 1 + 5 + 1 + 11 + 4 + len(t)
