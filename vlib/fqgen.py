"""Case generators and trace oracles shared by C05 / C06 / C14 on the `fq` engine."""
import itertools

from vlib.core import Case


def base_alphabet(n):
    ops = ["poll"]
    for k in range(1, n + 1):
        ops += [f"insert {k}", f"arrive {k}", f"close {k}", f"remove {k}"]
    return ops


def materialise(seq):
    """give every `arrive k` a fresh item number (k*100 + running index) so items are distinct"""
    out, cnt = [], {}
    for op in seq:
        w = op.split()
        if w[0] == "window" and w[3] == "arrive":
            k = int(w[4])
            cnt[k] = cnt.get(k, 0) + 1
            out.append(f"window {w[1]} {w[2]} arrive {k} {k * 100 + cnt[k]}")
        elif w[0] == "arrive":
            k = int(w[1])
            cnt[k] = cnt.get(k, 0) + 1
            out.append(f"arrive {k} {k * 100 + cnt[k]}")
        else:
            out.append(op)
    return out


def valid(seq):
    """keys are inserted at most once (identities are unique); nothing else is restricted"""
    seen = set()
    for op in seq:
        w = op.split()
        if w[0] == "insert" or (w[0] == "window" and w[3] == "insert"):
            k = w[1] if w[0] == "insert" else w[4]
            if k in seen:
                return False
            seen.add(k)
    return True


DRAIN = ["poll"] * 4


def exhaustive(n, depth, tag, extra=()):
    al = base_alphabet(n) + list(extra)
    i = 0
    for d in range(1, depth + 1):
        for seq in itertools.product(al, repeat=d):
            if not valid(seq) or (extra and not any(e in seq for e in extra)):
                continue
            # symmetry: the first key mentioned is 1, the second new key is 2, ...
            order = []
            for op in seq:
                w = op.split()
                if len(w) > 1 and w[1] not in order:
                    order.append(w[1])
            if order != sorted(order) or (order and order[0] != "1") or any(int(a) + 1 < int(b) for a, b in zip(order, order[1:])):
                continue
            # drain: one poll per item that can still be queued (at least the usual four)
            narr = sum(1 for x in seq if x.startswith("arrive"))
            yield Case(f"{tag}#{i}", "fq", materialise(list(seq) + ["poll"] * max(4, narr + 1)), [tag])
            i += 1


def windows(tag, full):
    """one window action placed inside a short schedule: the event lands while the queue has
    released its lock to poll stream k"""
    pre_al = ["insert 1", "insert 2", "arrive 1", "arrive 2", "poll"]
    prefixes = [p for d in range(1, 4 if full else 3) for p in itertools.product(pre_al, repeat=d) if valid(p) and "insert 1" in p]
    wins = []
    for k in (1, 2):
        for when in ("pre", "post"):
            for env in ("arrive", "insert", "close", "remove"):
                for j in (1, 2, 3):
                    wins.append(f"window {k} {when} {env} {j}")
    suffixes = [["poll"], ["poll", "poll"], ["arrive 1", "poll", "poll"], ["arrive 2", "poll", "poll"], ["poll", "arrive 3", "poll"]]
    i = 0
    for p in prefixes:
        for w in wins:
            for s in suffixes:
                seq = list(p) + [w] + s
                if not valid(seq):
                    continue
                yield Case(f"{tag}#{i}", "fq", materialise(seq + DRAIN), [tag])
                i += 1


def random_cases(rng, count, tag, maxpeers=5, length=(20, 60)):
    for i in range(count):
        n = rng.randint(1, maxpeers)
        seq = []
        inserted = set()
        for _ in range(rng.randint(*length)):
            r = rng.random()
            k = rng.randint(1, n)
            if r < 0.30:
                seq.append("poll")
            elif r < 0.60:
                seq.append(f"arrive {k}")
            elif r < 0.72:
                if k not in inserted:
                    inserted.add(k)
                    seq.append(f"insert {k}")
            elif r < 0.77:
                seq.append(f"close {k}")
            elif r < 0.80:
                seq.append(f"remove {k}")
            elif r < 0.83:
                # the executor's cooperative budget runs out: now, or inside stream k's next poll
                seq.append(rng.choice(["exhaust", f"window {k} pre exhaust", f"window {k} post exhaust"]))
            elif r < 0.86:
                # the application moves to another task / future: later polls come with another waker
                seq.append(f"setwaker {rng.randint(0, 3)}")
            else:
                j = rng.randint(1, n)
                env = rng.choice(["arrive", "arrive", "close", "insert", "remove"])
                if env == "insert":
                    if j in inserted:
                        continue
                    inserted.add(j)
                seq.append(f"window {k} {rng.choice(['pre', 'post'])} {env} {j}")
        # drain: one poll per item that may still be queued, and a few more
        narr = sum(1 for x in seq if "arrive" in x)
        yield Case(f"{tag}#{i}", "fq", materialise(seq + ["poll"] * (narr + 8)), [tag])


def waker_cases(rng, count, tag):
    """recv calls made from different tasks / futures (each with its own waker), earlier ones abandoned while
    parked: the wake-up for later data must go to the LATEST caller's waker"""
    for i in range(count):
        n = rng.randint(1, 3)
        seq = [f"insert {k}" for k in range(1, n + 1)]
        for _ in range(rng.randint(1, 4)):
            seq.append(f"setwaker {rng.randint(1, 4)}")
            seq += ["poll"] * rng.randint(1, 2)          # parks (nothing queued) — then the call is abandoned
            if rng.random() < 0.4:
                seq.append(f"arrive {rng.randint(1, n)}")
            if rng.random() < 0.3:
                seq.append(f"insert {n + 1 + rng.randint(0, 2)}") if valid(seq + [f"insert {n + 1}"]) else None
        seq.append(f"setwaker {rng.randint(5, 6)}")
        seq += ["poll", "poll", f"arrive {rng.randint(1, n)}", "poll", "poll"]
        seq = [x for x in seq if x]
        if not valid(seq):
            continue
        yield Case(f"{tag}#{i}", "fq", materialise(seq + ["poll"] * 6), [tag])


def exhaust_cases(rng, count, tag):
    """the executor's cooperative budget runs out while several peers have a backlog: every stream poll
    returns Pending after waking itself — the call must return (not spin) and nothing may be lost"""
    for i in range(count):
        n = rng.randint(1, 5)
        seq = [f"insert {k}" for k in range(1, n + 1)]
        for k in range(1, n + 1):
            seq += [f"arrive {k}"] * rng.randint(0, 4)
        rng.shuffle(seq)
        seq += ["poll"] * rng.randint(0, 3)
        k = rng.randint(1, n)
        seq.append(rng.choice(["exhaust", f"window {k} pre exhaust", f"window {k} post exhaust"]))
        tail = ["poll"] * rng.randint(1, 4) + [f"arrive {rng.randint(1, n)}", "exhaust", "poll", f"arrive {rng.randint(1, n)}"]
        rng.shuffle(tail)
        yield Case(f"{tag}#{i}", "fq", materialise(seq + tail + ["poll"] * (6 * n + 8)), [tag])


# --------------------------------------------------------------------------- oracles on a trace


def analyse(case, lines):
    """independent bookkeeping over the ops and the IMPLEMENTATION's answers.
    Returns dict(delivered, arrived, windowed, removed, inserted, polls=[(idx, result, wakes)])"""
    arrived, delivered = {}, {}
    inserted, removed, closed, windowed = set(), set(), set(), set()
    polls = []
    events = []  # (op index, kind, key)
    for idx, (op, l) in enumerate(zip(case.ops, lines[1:])):
        w = op.split()
        if w[0] == "window" and w[3] == "exhaust":
            pass  # budget exhaustion changes WHEN things are delivered, never what or in which order
        elif w[0] == "window":
            windowed.add(int(w[1]))
            windowed.add(int(w[4]))
            if w[3] == "arrive":
                arrived.setdefault(int(w[4]), []).append(int(w[5]))
            if w[3] == "insert":
                inserted.add(int(w[4]))
            if w[3] == "remove":
                removed.add(int(w[4]))
            # (a window `close` takes effect later: arrivals registered after it may or may not count)
        elif w[0] == "arrive":
            k = int(w[1])
            if k not in closed:
                arrived.setdefault(k, []).append(int(w[2]))
            events.append((idx, "arrive", k))
        elif w[0] == "insert":
            inserted.add(int(w[1]))
            events.append((idx, "insert", int(w[1])))
        elif w[0] == "remove":
            removed.add(int(w[1]))
        elif w[0] == "close":
            closed.add(int(w[1]))
            events.append((idx, "close", int(w[1])))
        elif w[0] == "poll":
            p = l.split()
            wk = int(l.rsplit("wakes=", 1)[1]) if "wakes=" in l else -1
            if p[0] == "ready" and p[1] != "none":
                delivered.setdefault(int(p[1]), []).append(int(p[2]))
                polls.append((idx, "ready", wk, int(p[1])))
            else:
                polls.append((idx, p[0], wk, None))
    return dict(arrived=arrived, delivered=delivered, inserted=inserted, removed=removed, closed=closed,
                windowed=windowed, polls=polls, events=events)


def wakes_at(lines, idx):
    l = lines[1 + idx]
    return int(l.rsplit("wakes=", 1)[1]) if "wakes=" in l else None
