"""Helpers shared by the case generators: token expansion, canonical printing (same rules as the
harness and the model driver), corpus loading."""
import glob
import os

from vlib.core import ROOT, Case

MASK64 = (1 << 64) - 1


def gen_byte(seed, i):
    x = (((seed * 1000003 + i) & MASK64) * 2654435761) & 0xFFFFFFFF
    return (x >> 24) & 0xFF


def expand_bytes(tok):
    out = bytearray()
    for part in tok.split("+"):
        if part in (".", ""):
            continue
        if part.startswith("@"):
            ln, seed = part[1:].split(":")
            ln, seed = int(ln), int(seed)
            out.extend(gen_byte(seed, i) for i in range(ln))
        else:
            out.extend(bytes.fromhex(part))
    return bytes(out)


def fnv64(b):
    h = 0xCBF29CE484222325
    for x in b:
        h ^= x
        h = (h * 0x100000001B3) & MASK64
    return h


def show_bytes(b, full=False):
    if len(b) == 0:
        return "."
    if len(b) <= 200 or full:
        return b.hex()
    return f"{b[:16].hex()}#{len(b)}:{fnv64(b):016x}"


def show_bytes_tok(tok, full=False):
    return show_bytes(expand_bytes(tok), full)


def show_msg(tok, full=False):
    return ",".join(show_bytes(expand_bytes(f), full) for f in tok.split(","))


def show_msg_full(tok):
    return show_msg(tok, True)


def corpus(pid):
    """minimised past failures and known-finding witnesses: always run first"""
    out = []
    for p in sorted(glob.glob(os.path.join(ROOT, "corpus", pid, "*.case"))):
        lines = [l.rstrip("\n") for l in open(p) if l.strip() and not l.startswith("#")]
        if not lines:
            continue
        engine = lines[0].split()[1] if lines[0].startswith("engine ") else "codec"
        ops = lines[1:] if lines[0].startswith("engine ") else lines
        out.append(Case("corpus-" + os.path.basename(p)[:-5], engine, ops, ["corpus"]))
    return out


def hexs(b):
    return b.hex() if len(b) else "."
