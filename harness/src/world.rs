//! engine `world`: any number of REAL sockets of any type, scripted pipes attached through the real
//! handshake (`__verif::attach` = `FramedIo::new` + `util::peer_connected`), and user-level futures
//! (`recv`, `send`, `subscribe`, `attach`, `close`, `proxy`) stepped ONE POLL AT A TIME.  There is one
//! total order of events, so the Lean model replays the same schedule and must predict every line.
use crate::pipe::{err_kind, Pipe};
use crate::util::*;
use bytes::Bytes;
use futures::task::{waker, ArcWake};
use std::cell::RefCell;
use std::collections::HashMap;
use std::convert::TryFrom;
use std::future::Future;
use std::pin::Pin;
use std::rc::Rc;
use std::sync::atomic::{AtomicUsize, Ordering};
use std::sync::Arc;
use std::task::{Context, Poll};
use zeromq::util::PeerIdentity;
use zeromq::*;

pub enum Sock {
    Pub(PubSocket),
    Sub(SubSocket),
    Req(ReqSocket),
    Rep(RepSocket),
    Dealer(DealerSocket),
    Router(RouterSocket),
    Pull(PullSocket),
    Push(PushSocket),
    XPub(XPubSocket),
}

impl Sock {
    fn new(t: &str, ident: Option<Vec<u8>>) -> Option<Sock> {
        let mk = || {
            let mut o = SocketOptions::default();
            if let Some(i) = &ident {
                if let Ok(p) = PeerIdentity::try_from(i.clone()) {
                    o.peer_identity(p);
                }
            }
            o
        };
        Some(match t {
            "PUB" => Sock::Pub(PubSocket::with_options(mk())),
            "SUB" => Sock::Sub(SubSocket::with_options(mk())),
            "REQ" => Sock::Req(ReqSocket::with_options(mk())),
            "REP" => Sock::Rep(RepSocket::with_options(mk())),
            "DEALER" => Sock::Dealer(DealerSocket::with_options(mk())),
            "ROUTER" => Sock::Router(RouterSocket::with_options(mk())),
            "PULL" => Sock::Pull(PullSocket::with_options(mk())),
            "PUSH" => Sock::Push(PushSocket::with_options(mk())),
            "XPUB" => Sock::XPub(XPubSocket::with_options(mk())),
            _ => return None,
        })
    }
    pub fn new_plain(t: &str) -> Option<Sock> {
        Sock::new(t, None)
    }
    fn backend(&self) -> Arc<dyn MultiPeerBackend> {
        match self {
            Sock::Pub(s) => s.backend(),
            Sock::Sub(s) => s.backend(),
            Sock::Req(s) => s.backend(),
            Sock::Rep(s) => s.backend(),
            Sock::Dealer(s) => s.backend(),
            Sock::Router(s) => s.backend(),
            Sock::Pull(s) => s.backend(),
            Sock::Push(s) => s.backend(),
            Sock::XPub(s) => s.backend(),
        }
    }
}

#[derive(Default)]
pub struct Names {
    autos: Vec<Vec<u8>>,
}

fn placeholder(n: usize) -> Vec<u8> {
    let mut v = vec![0xA7u8; 15];
    v.push(n as u8);
    v
}

fn replace_all(hay: &[u8], from: &[u8], to: &[u8]) -> Vec<u8> {
    if from.is_empty() || hay.len() < from.len() {
        return hay.to_vec();
    }
    let mut out = Vec::with_capacity(hay.len());
    let mut i = 0;
    while i < hay.len() {
        if i + from.len() <= hay.len() && &hay[i..i + from.len()] == from {
            out.extend_from_slice(to);
            i += from.len();
        } else {
            out.push(hay[i]);
            i += 1;
        }
    }
    out
}

/// Auto-assigned identities are random UUIDs in the real code; towards the model they are the
/// placeholders `a7 x15, n` (n = order of first appearance).  Translated at every boundary.
impl Names {
    fn to_model(&self, b: &[u8]) -> Vec<u8> {
        let mut v = b.to_vec();
        for (i, a) in self.autos.iter().enumerate() {
            v = replace_all(&v, a, &placeholder(i));
        }
        v
    }
    fn to_real(&self, b: &[u8]) -> Vec<u8> {
        let mut v = b.to_vec();
        for (i, a) in self.autos.iter().enumerate() {
            v = replace_all(&v, &placeholder(i), a);
        }
        v
    }
    fn frame(&self, f: &[u8]) -> String {
        show_bytes(&self.to_model(f))
    }
    fn msg(&self, m: &ZmqMessage) -> String {
        if m.is_empty() {
            return "M[EMPTYMSG]".into();
        }
        let fs: Vec<String> = m.iter().map(|f| self.frame(f)).collect();
        format!("M[{}]", fs.join(","))
    }
    fn parse_msg(&self, tok: &str) -> Result<ZmqMessage, String> {
        let mut frames: Vec<Bytes> = Vec::new();
        for f in tok.split(',') {
            frames.push(Bytes::from(self.to_real(&parse_bytes(f)?)));
        }
        ZmqMessage::try_from(frames).map_err(|_| "empty message".to_string())
    }
}

fn zerr(e: &ZmqError, names: &Names) -> String {
    match e {
        ZmqError::ReturnToSender { message, .. } => format!("err ReturnToSender {}", names.msg(message)),
        _ => format!("err {}", err_class(&format!("{:?}", e))),
    }
}

struct Cnt(AtomicUsize);
impl ArcWake for Cnt {
    fn wake_by_ref(a: &Arc<Self>) {
        a.0.fetch_add(1, Ordering::SeqCst);
    }
}

struct Fut {
    fut: Option<Pin<Box<dyn Future<Output = String>>>>,
    socks: Vec<usize>,
    wakes: Arc<Cnt>,
    /// value of `wakes` when the last poll of this future returned
    wakes_at_return: usize,
}

pub struct World {
    rt: &'static tokio::runtime::Runtime,
    socks: HashMap<usize, Box<Sock>>,
    pipes: HashMap<usize, Pipe>,
    futs: HashMap<usize, Fut>,
    names: Rc<RefCell<Names>>,
}

type SP = *mut Sock;

impl World {
    pub fn new() -> Self {
        let rt = tokio::runtime::Builder::new_current_thread().enable_all().build().unwrap();
        let rt: &'static tokio::runtime::Runtime = Box::leak(Box::new(rt));
        World { rt, socks: HashMap::new(), pipes: HashMap::new(), futs: HashMap::new(), names: Rc::new(RefCell::new(Names::default())) }
    }

    fn reset(&mut self) {
        let _g = self.rt.enter();
        self.futs.clear();
        self.socks.clear();
        self.pipes.clear();
        self.names = Rc::new(RefCell::new(Names::default()));
        self.drain();
    }

    fn drain(&self) {
        self.rt.block_on(async {
            for _ in 0..64 {
                tokio::task::yield_now().await;
            }
        });
    }

    fn busy(&self, s: usize) -> bool {
        self.futs.values().any(|f| f.fut.is_some() && f.socks.contains(&s))
    }

    fn sock_ptr(&mut self, s: usize) -> Option<SP> {
        self.socks.get_mut(&s).map(|b| &mut **b as *mut Sock)
    }

    fn add_fut(&mut self, id: usize, socks: Vec<usize>, f: Pin<Box<dyn Future<Output = String>>>) -> String {
        self.futs.insert(id, Fut { fut: Some(f), socks, wakes: Arc::new(Cnt(AtomicUsize::new(0))), wakes_at_return: 0 });
        "ok".into()
    }

    pub fn op(&mut self, words: &[&str]) -> String {
        let before = crate::PANICS.load(std::sync::atomic::Ordering::SeqCst);
        let r = std::panic::catch_unwind(std::panic::AssertUnwindSafe(|| self.op_inner(words)));
        match r {
            // a panic inside a task the library spawned does not unwind into the op: the hook counted it
            Ok(s) if crate::PANICS.load(std::sync::atomic::Ordering::SeqCst) != before => format!("{} PANIC(in a spawned task)", s),
            Ok(s) => s,
            Err(_) => "PANIC".into(),
        }
    }

    fn op_inner(&mut self, w: &[&str]) -> String {
        let _g = self.rt.enter();
        let num = |i: usize| -> Option<usize> { w.get(i).and_then(|s| s.parse().ok()) };
        match w[0] {
            "case" => {
                drop(_g);
                self.reset();
                format!("case {}", w.get(1).unwrap_or(&""))
            }
            "sock" => {
                let id = num(1).unwrap();
                let ident = w.get(3).map(|t| parse_bytes(t).unwrap());
                match Sock::new(w[2], ident) {
                    Some(s) => {
                        self.socks.insert(id, Box::new(s));
                        "ok".into()
                    }
                    None => "bad-op type".into(),
                }
            }
            // attach <f> <s> <p>: new future = the real handshake of a fresh pipe p onto socket s
            "attach" => {
                let (f, s, p) = (num(1).unwrap(), num(2).unwrap(), num(3).unwrap());
                let backend = match self.socks.get(&s) {
                    Some(b) => b.backend(),
                    None => return "bad-op no-sock".into(),
                };
                let pipe = self.pipes.entry(p).or_insert_with(Pipe::new).clone();
                let (r, wr) = pipe.halves();
                let names = self.names.clone();
                let fut = async move {
                    let res = zeromq::__verif::attach(backend, r, wr).await;
                    match res {
                        Ok(id) => {
                            let announced = {
                                let st = pipe.0.lock().unwrap();
                                !id.is_empty() && st.all_revealed.windows(id.len()).any(|x| x == id.as_slice())
                            };
                            let mut n = names.borrow_mut();
                            if !announced && !n.autos.contains(&id) {
                                n.autos.push(id.clone());
                            }
                            format!("ok id={}", n.frame(&id))
                        }
                        Err(e) => zerr(&e, &names.borrow()),
                    }
                };
                self.add_fut(f, vec![], Box::pin(fut))
            }
            "pipe" => {
                let p = num(1).unwrap();
                self.pipes.entry(p).or_insert_with(Pipe::new);
                "ok".into()
            }
            "reveal" => {
                let p = num(1).unwrap();
                let b = match parse_bytes(w[2]) {
                    Ok(b) => b,
                    Err(e) => return format!("bad-op {}", e),
                };
                let b = self.names.borrow().to_real(&b);
                self.pipes.entry(p).or_insert_with(Pipe::new).reveal(&b);
                "ok".into()
            }
            "eof" => {
                self.pipes.entry(num(1).unwrap()).or_insert_with(Pipe::new).eof();
                "ok".into()
            }
            "rderr" => {
                self.pipes.entry(num(1).unwrap()).or_insert_with(Pipe::new).rderr(err_kind(w.get(2).unwrap_or(&"ConnectionReset")));
                "ok".into()
            }
            "wrerr" => {
                self.pipes.entry(num(1).unwrap()).or_insert_with(Pipe::new).wrerr(err_kind(w.get(2).unwrap_or(&"BrokenPipe")));
                "ok".into()
            }
            // yieldy p k [chunk]: pipe p hands out at most `chunk` bytes per read and, after every k reads that returned
            // data, wakes the reader and returns Pending once although more data is there (k = 0: back to normal)
            "yieldy" => {
                let k = num(2).unwrap_or(0);
                let chunk = num(3).filter(|c| *c > 0);
                self.pipes.entry(num(1).unwrap()).or_insert_with(Pipe::new).set_yieldy(if k == 0 { None } else { Some(k) }, chunk);
                "ok".into()
            }
            // wrerr1 p kind: a TRANSIENT write error — exactly one write on the pipe fails
            "wrerr1" => {
                self.pipes.entry(num(1).unwrap()).or_insert_with(Pipe::new).wrerr_once(err_kind(w.get(2).unwrap_or(&"Interrupted")));
                "ok".into()
            }
            "credit" => {
                let c = if w[2] == "inf" { None } else { Some(w[2].parse::<usize>().unwrap()) };
                self.pipes.entry(num(1).unwrap()).or_insert_with(Pipe::new).set_credit(c);
                "ok".into()
            }
            "wire" => match self.pipes.get(&num(1).unwrap()) {
                Some(p) => format!("wire {}", show_bytes(&self.names.borrow().to_model(&p.take_wire()))),
                None => "bad-op no-pipe".into(),
            },
            // the delta since the last look, cut into ZMTP messages and SORTED: for wires whose
            // message order is legitimately nondeterministic (capture socket of a proxy)
            "wiresorted" => match self.pipes.get(&num(1).unwrap()) {
                Some(p) => {
                    let b = self.names.borrow().to_model(&p.take_wire());
                    let mut msgs: Vec<String> = Vec::new();
                    let mut i = 0;
                    let mut start = 0;
                    let mut ok = true;
                    while i < b.len() {
                        let flags = b[i];
                        let (len, hdr) = if flags & 2 != 0 {
                            if i + 9 > b.len() {
                                ok = false;
                                break;
                            }
                            let mut l = [0u8; 8];
                            l.copy_from_slice(&b[i + 1..i + 9]);
                            (u64::from_be_bytes(l) as usize, 9)
                        } else {
                            if i + 2 > b.len() {
                                ok = false;
                                break;
                            }
                            (b[i + 1] as usize, 2)
                        };
                        if i + hdr + len > b.len() {
                            ok = false;
                            break;
                        }
                        i += hdr + len;
                        if flags & 1 == 0 {
                            msgs.push(show_bytes(&b[start..i]));
                            start = i;
                        }
                    }
                    if start < b.len() {
                        ok = false;
                    }
                    msgs.sort();
                    format!("wiresorted {}{}", msgs.join(";"), if ok { "".to_string() } else { format!("|rest:{}", show_bytes(&b[start..])) })
                }
                None => "bad-op no-pipe".into(),
            },
            "halves" => match self.pipes.get(&num(1).unwrap()) {
                Some(p) => {
                    let s = p.0.lock().unwrap();
                    format!("halves r={} w={}", s.read_dropped as u8, s.write_dropped as u8)
                }
                None => "bad-op no-pipe".into(),
            },
            "recv" => {
                let (f, s) = (num(1).unwrap(), num(2).unwrap());
                if self.busy(s) {
                    return "bad-op busy".into();
                }
                let ptr = match self.sock_ptr(s) {
                    Some(p) => p,
                    None => return "bad-op no-sock".into(),
                };
                let names = self.names.clone();
                let fut = async move {
                    // SAFETY: the socket lives in a Box that is only removed after every future that
                    // refers to it has been dropped (`dropsock` / `case`); one live future per socket.
                    let sock = unsafe { &mut *ptr };
                    let r = match sock {
                        Sock::Sub(x) => x.recv().await,
                        Sock::Req(x) => x.recv().await,
                        Sock::Rep(x) => x.recv().await,
                        Sock::Dealer(x) => x.recv().await,
                        Sock::Router(x) => x.recv().await,
                        Sock::Pull(x) => x.recv().await,
                        Sock::XPub(x) => x.recv().await,
                        _ => return "bad-op no-recv".to_string(),
                    };
                    match r {
                        Ok(m) => format!("ok {}", names.borrow().msg(&m)),
                        Err(e) => zerr(&e, &names.borrow()),
                    }
                };
                self.add_fut(f, vec![s], Box::pin(fut))
            }
            "send" => {
                let (f, s) = (num(1).unwrap(), num(2).unwrap());
                if self.busy(s) {
                    return "bad-op busy".into();
                }
                let m = match self.names.borrow().parse_msg(w[3]) {
                    Ok(m) => m,
                    Err(e) => return format!("bad-op {}", e),
                };
                let ptr = match self.sock_ptr(s) {
                    Some(p) => p,
                    None => return "bad-op no-sock".into(),
                };
                let names = self.names.clone();
                let fut = async move {
                    let sock = unsafe { &mut *ptr };
                    let r = match sock {
                        Sock::Pub(x) => x.send(m).await,
                        Sock::Req(x) => x.send(m).await,
                        Sock::Rep(x) => x.send(m).await,
                        Sock::Dealer(x) => x.send(m).await,
                        Sock::Router(x) => x.send(m).await,
                        Sock::Push(x) => x.send(m).await,
                        Sock::XPub(x) => x.send(m).await,
                        _ => return "bad-op no-send".to_string(),
                    };
                    match r {
                        Ok(()) => "ok".to_string(),
                        Err(e) => zerr(&e, &names.borrow()),
                    }
                };
                self.add_fut(f, vec![s], Box::pin(fut))
            }
            "sub" | "unsub" => {
                let (f, s) = (num(1).unwrap(), num(2).unwrap());
                if self.busy(s) {
                    return "bad-op busy".into();
                }
                let topic = match String::from_utf8(parse_bytes(w.get(3).unwrap_or(&".")).unwrap()) {
                    Ok(t) => t,
                    Err(_) => return "bad-op utf8".into(),
                };
                let is_sub = w[0] == "sub";
                let ptr = match self.sock_ptr(s) {
                    Some(p) => p,
                    None => return "bad-op no-sock".into(),
                };
                let names = self.names.clone();
                let fut = async move {
                    let sock = unsafe { &mut *ptr };
                    let r = match sock {
                        Sock::Sub(x) => {
                            if is_sub {
                                x.subscribe(&topic).await
                            } else {
                                x.unsubscribe(&topic).await
                            }
                        }
                        _ => return "bad-op not-sub".to_string(),
                    };
                    match r {
                        Ok(()) => "ok".to_string(),
                        Err(e) => zerr(&e, &names.borrow()),
                    }
                };
                self.add_fut(f, vec![s], Box::pin(fut))
            }
            // close <f> <s>: the future owns the socket
            "close" => {
                let (f, s) = (num(1).unwrap(), num(2).unwrap());
                if self.busy(s) {
                    return "bad-op busy".into();
                }
                let sock = match self.socks.remove(&s) {
                    Some(b) => *b,
                    None => return "bad-op no-sock".into(),
                };
                let fut = async move {
                    let errs = match sock {
                        Sock::Pub(x) => x.close().await,
                        Sock::Sub(x) => x.close().await,
                        Sock::Req(x) => x.close().await,
                        Sock::Rep(x) => x.close().await,
                        Sock::Dealer(x) => x.close().await,
                        Sock::Router(x) => x.close().await,
                        Sock::Pull(x) => x.close().await,
                        Sock::Push(x) => x.close().await,
                        Sock::XPub(x) => x.close().await,
                    };
                    format!("ok errs={}", errs.len())
                };
                self.add_fut(f, vec![], Box::pin(fut))
            }
            "dropsock" => {
                let s = num(1).unwrap();
                // futures that borrow the socket go first
                let ids: Vec<usize> = self.futs.iter().filter(|(_, f)| f.socks.contains(&s)).map(|(k, _)| *k).collect();
                for k in ids {
                    self.futs.remove(&k);
                }
                match self.socks.remove(&s) {
                    Some(b) => {
                        drop(b);
                        "ok".into()
                    }
                    None => "bad-op no-sock".into(),
                }
            }
            // proxy <f> <front> <back> [<capture>]: the future owns the sockets
            "proxy" => {
                let (f, a, b) = (num(1).unwrap(), num(2).unwrap(), num(3).unwrap());
                if self.busy(a) || self.busy(b) {
                    return "bad-op busy".into();
                }
                let cap: Option<Box<dyn CaptureSocket>> = match num(4) {
                    Some(c) => match self.socks.remove(&c).map(|b| *b) {
                        Some(Sock::Push(x)) => Some(Box::new(x)),
                        Some(Sock::Pub(x)) => Some(Box::new(x)),
                        Some(Sock::Dealer(x)) => Some(Box::new(x)),
                        _ => return "bad-op capture".into(),
                    },
                    None => None,
                };
                let fa = self.socks.remove(&a).map(|b| *b);
                let fb = self.socks.remove(&b).map(|b| *b);
                let names = self.names.clone();
                let fut: Pin<Box<dyn Future<Output = String>>> = match (fa, fb) {
                    (Some(Sock::Router(x)), Some(Sock::Dealer(y))) => Box::pin(async move {
                        match proxy(x, y, cap).await {
                            Ok(()) => "ok".to_string(),
                            Err(e) => zerr(&e, &names.borrow()),
                        }
                    }),
                    (Some(Sock::Dealer(x)), Some(Sock::Router(y))) => Box::pin(async move {
                        match proxy(x, y, cap).await {
                            Ok(()) => "ok".to_string(),
                            Err(e) => zerr(&e, &names.borrow()),
                        }
                    }),
                    (Some(Sock::Dealer(x)), Some(Sock::Dealer(y))) => Box::pin(async move {
                        match proxy(x, y, cap).await {
                            Ok(()) => "ok".to_string(),
                            Err(e) => zerr(&e, &names.borrow()),
                        }
                    }),
                    (Some(Sock::Router(x)), Some(Sock::Router(y))) => Box::pin(async move {
                        match proxy(x, y, cap).await {
                            Ok(()) => "ok".to_string(),
                            Err(e) => zerr(&e, &names.borrow()),
                        }
                    }),
                    _ => return "bad-op proxy-types".into(),
                };
                self.add_fut(f, vec![], fut)
            }
            // poll <f>: poll once; if the future woke ITSELF during the poll it is polled again
            // pollx f: ONE poll of the future made from inside a tokio task whose cooperative budget is already used up
            // (a consumer draining a backlog in a tight loop, a select! in a task that did other I/O in the same poll):
            // anything in the library that consults tokio's coop budget yields now; then the usual `poll`
            "pollx" => {
                let f = num(1).unwrap();
                let fu = match self.futs.get_mut(&f) {
                    Some(x) => x,
                    None => return "bad-op no-fut".into(),
                };
                let mut fut = match fu.fut.take() {
                    Some(x) => x,
                    None => return "done".into(),
                };
                let cnt = fu.wakes.clone();
                let wk = waker(cnt.clone());
                let res = self.rt.block_on(futures::future::poll_fn(|_outer| {
                    // use the budget of THIS poll of the block_on future up
                    let mut burn = Box::pin(async {
                        loop {
                            tokio::task::coop::consume_budget().await;
                        }
                    });
                    let nw = futures::task::noop_waker();
                    let mut ncx = Context::from_waker(&nw);
                    let _ = burn.as_mut().poll(&mut ncx);
                    let mut cx = Context::from_waker(&wk);
                    Poll::Ready(fut.as_mut().poll(&mut cx))
                }));
                match res {
                    Poll::Ready(s) => {
                        drop(fut);
                        return format!("ready {}", s);
                    }
                    Poll::Pending => {
                        let after = cnt.0.load(Ordering::SeqCst);
                        let fu = self.futs.get_mut(&f).unwrap();
                        fu.fut = Some(fut);
                        fu.wakes_at_return = after;
                        return "pending".into();
                    }
                }
            }
            "poll" => {
                let f = num(1).unwrap();
                let fu = match self.futs.get_mut(&f) {
                    Some(x) => x,
                    None => return "bad-op no-fut".into(),
                };
                let mut fut = match fu.fut.take() {
                    Some(x) => x,
                    None => return "done".into(),
                };
                let cnt = fu.wakes.clone();
                let wk = waker(cnt.clone());
                let mut cx = Context::from_waker(&wk);
                let mut rounds = 0;
                loop {
                    let before = cnt.0.load(Ordering::SeqCst);
                    match fut.as_mut().poll(&mut cx) {
                        Poll::Ready(s) => {
                            drop(fut);
                            return format!("ready {}", s);
                        }
                        Poll::Pending => {
                            let after = cnt.0.load(Ordering::SeqCst);
                            rounds += 1;
                            if after != before && rounds < 16 {
                                continue; // woke itself while being polled
                            }
                            let fu = self.futs.get_mut(&f).unwrap();
                            fu.fut = Some(fut);
                            fu.wakes_at_return = after;
                            return "pending".into();
                        }
                    }
                }
            }
            // has this future's own waker been woken since its last poll returned Pending?
            "woken" => {
                let f = num(1).unwrap();
                match self.futs.get(&f) {
                    Some(fu) if fu.fut.is_some() => {
                        if fu.wakes.0.load(Ordering::SeqCst) > fu.wakes_at_return { "woken yes".into() } else { "woken no".into() }
                    }
                    Some(_) => "done".into(),
                    None => "bad-op no-fut".into(),
                }
            }
            "drop" => {
                let f = num(1).unwrap();
                match self.futs.remove(&f) {
                    Some(x) => {
                        drop(x);
                        "ok".into()
                    }
                    None => "bad-op no-fut".into(),
                }
            }
            "drain" => {
                drop(_g);
                self.drain();
                "ok".into()
            }
            _ => "bad-op".into(),
        }
    }
}
