//! `zmqharness <engine>`: reads one op per line on stdin, drives the REAL zeromq code, prints one
//! canonical result line per op.  The Lean driver `zmqmodel <engine>` reads the same lines.
mod alloc;
mod codec;
mod endpoint;
mod fq;
mod net;
mod pipe;
mod world;
mod tables;
mod util;

use std::io::{BufRead, Write};

#[global_allocator]
static GLOBAL: alloc::Counting = alloc::Counting;

/// A logger that FORMATS every record of the library (all levels) and throws the text away: `Debug` / `Display`
/// implementations reached only through log lines (identities, errors, events) run under the same `catch_unwind`,
/// stack and allocation observation as everything else — a panic inside one is a panic of the library call that logs.
struct FormatAll;
impl log::Log for FormatAll {
    fn enabled(&self, _: &log::Metadata) -> bool {
        true
    }
    fn log(&self, record: &log::Record) {
        let _ = std::hint::black_box(format!("{}", record.args()));
    }
    fn flush(&self) {}
}
static LOGGER: FormatAll = FormatAll;

/// every panic in the process, on whatever thread or task (a panic inside a task the library spawned is swallowed by the
/// runtime: nothing an op returns would show it)
pub static PANICS: std::sync::atomic::AtomicUsize = std::sync::atomic::AtomicUsize::new(0);

fn main() {
    let _ = log::set_logger(&LOGGER);
    log::set_max_level(log::LevelFilter::Trace);
    let args: Vec<String> = std::env::args().collect();
    let engine = args.get(1).map(|s| s.as_str()).unwrap_or("");
    // panics are outcomes here, not noise
    std::panic::set_hook(Box::new(|_| {
        PANICS.fetch_add(1, std::sync::atomic::Ordering::SeqCst);
    }));
    let stdin = std::io::stdin();
    let stdout = std::io::stdout();
    let mut out = std::io::BufWriter::new(stdout.lock());
    match engine {
        "codec" => {
            let mut e = codec::CodecEngine::new();
            for line in stdin.lock().lines() {
                let line = line.unwrap();
                let words: Vec<&str> = line.split_whitespace().collect();
                if words.is_empty() || words[0].starts_with('#') {
                    continue;
                }
                let r = e.op(&words);
                writeln!(out, "{}", r).unwrap();
                out.flush().unwrap();
            }
        }
        "fq" => {
            let mut e = fq::FqEngine::new();
            for line in stdin.lock().lines() {
                let line = line.unwrap();
                let words: Vec<&str> = line.split_whitespace().collect();
                if words.is_empty() || words[0].starts_with('#') {
                    continue;
                }
                let r = e.op(&words);
                writeln!(out, "{}", r).unwrap();
            }
        }
        "world" => {
            // every poll runs on a thread with the stack of a tokio worker / a default Rust thread
            // (2 MiB), not on the 8 MiB main thread: recursion driven by peer input must show
            drop(out);
            let stack = std::env::var("VERIF_WORLD_STACK").ok().and_then(|v| v.parse().ok()).unwrap_or(2usize << 20);
            let h = std::thread::Builder::new()
                .stack_size(stack)
                .spawn(move || {
                    let stdin = std::io::stdin();
                    let stdout = std::io::stdout();
                    let mut out = std::io::BufWriter::new(stdout.lock());
                    let mut e = world::World::new();
                    for line in stdin.lock().lines() {
                        let line = line.unwrap();
                        let words: Vec<&str> = line.split_whitespace().collect();
                        if words.is_empty() || words[0].starts_with('#') {
                            continue;
                        }
                        let r = e.op(&words);
                        writeln!(out, "{}", r).unwrap();
                        out.flush().unwrap();
                    }
                    out.flush().unwrap();
                })
                .unwrap();
            h.join().unwrap();
            return;
        }
        "net" => {
            let mut e = net::Net::new();
            for line in stdin.lock().lines() {
                let line = line.unwrap();
                let words: Vec<&str> = line.split_whitespace().collect();
                if words.is_empty() || words[0].starts_with('#') {
                    continue;
                }
                let before = PANICS.load(std::sync::atomic::Ordering::SeqCst);
                let r = match std::panic::catch_unwind(std::panic::AssertUnwindSafe(|| e.op(&words))) {
                    Ok(r) if PANICS.load(std::sync::atomic::Ordering::SeqCst) != before => format!("{} PANIC(in a spawned task)", r),
                    Ok(r) => r,
                    Err(_) => "PANIC".to_string(),
                };
                writeln!(out, "{}", r).unwrap();
                out.flush().unwrap();
            }
        }
        "endpoint" => {
            for line in stdin.lock().lines() {
                let line = line.unwrap();
                let words: Vec<&str> = line.split_whitespace().collect();
                if words.is_empty() || words[0].starts_with('#') {
                    continue;
                }
                writeln!(out, "{}", endpoint::op(&words)).unwrap();
            }
        }
        "tables" => {
            write!(out, "{}", tables::dump()).unwrap();
        }
        _ => {
            eprintln!("unknown engine {}", engine);
            std::process::exit(2);
        }
    }
    out.flush().unwrap();
}
