//! engine `endpoint`: real `str::parse::<Endpoint>()`, `Display`, re-parse; plus direct samples of
//! `std::net` parse/print (the laws the Lean round-trip theorem assumes).
use crate::util::*;
use std::net::{Ipv4Addr, Ipv6Addr};
use std::panic::catch_unwind;
use zeromq::{Endpoint, Host};

fn show_ep(e: &Endpoint) -> String {
    match e {
        Endpoint::Tcp(h, p) => {
            let (k, t) = match h {
                Host::Ipv4(a) => ("v4", a.to_string()),
                Host::Ipv6(a) => ("v6", a.to_string()),
                Host::Domain(s) => ("dom", s.clone()),
            };
            format!("tcp {} {} {}", k, hex(t.as_bytes()), p)
        }
        Endpoint::Ipc(Some(p)) => format!("ipc {}", hex(p.to_string_lossy().as_bytes())),
        Endpoint::Ipc(None) => "ipc NONE".to_string(),
        #[allow(unreachable_patterns)]
        _ => "other".to_string(),
    }
}

pub fn op(words: &[&str]) -> String {
    match words[0] {
        "case" => format!("case {}", words.get(1).unwrap_or(&"")),
        "parse" => {
            let bytes = match parse_bytes(words[1]) {
                Ok(b) => b,
                Err(e) => return format!("bad-op {}", e),
            };
            let s = match String::from_utf8(bytes) {
                Ok(s) => s,
                Err(_) => return "bad-op utf8".into(),
            };
            let r = catch_unwind(|| {
                match s.parse::<Endpoint>() {
                    Ok(e) => {
                        let d = e.to_string();
                        let re = match d.parse::<Endpoint>() {
                            Ok(e2) => {
                                if e2 == e {
                                    "same".to_string()
                                } else {
                                    format!("diff {}", show_ep(&e2))
                                }
                            }
                            Err(x) => format!("err {}", err_class(&format!("{:?}", x))),
                        };
                        format!("ok {} | disp {} | re {}", show_ep(&e), hex(d.as_bytes()), re)
                    }
                    Err(x) => format!("err {}", err_class(&format!("{:?}", x))),
                }
            });
            r.unwrap_or_else(|_| "PANIC".into())
        }
        "ip4" => {
            let s = String::from_utf8(parse_bytes(words[1]).unwrap()).unwrap();
            match s.parse::<Ipv4Addr>() {
                Ok(a) => format!("some {}", hex(a.to_string().as_bytes())),
                Err(_) => "none".into(),
            }
        }
        "ip6" => {
            let s = String::from_utf8(parse_bytes(words[1]).unwrap()).unwrap();
            match s.parse::<Ipv6Addr>() {
                Ok(a) => format!("some {}", hex(a.to_string().as_bytes())),
                Err(_) => "none".into(),
            }
        }
        // print the address with these 16 bytes and parse the text back
        "v6rt" => {
            let b = parse_bytes(words[1]).unwrap();
            if b.len() != 16 {
                return "bad-op len".into();
            }
            let mut o = [0u8; 16];
            o.copy_from_slice(&b);
            let a = Ipv6Addr::from(o);
            let t = a.to_string();
            let re = match t.parse::<Ipv6Addr>() {
                Ok(a2) if a2 == a => "same",
                Ok(_) => "diff",
                Err(_) => "none",
            };
            format!("disp {} | re {}", hex(t.as_bytes()), re)
        }
        "v4rt" => {
            let b = parse_bytes(words[1]).unwrap();
            if b.len() != 4 {
                return "bad-op len".into();
            }
            let a = Ipv4Addr::new(b[0], b[1], b[2], b[3]);
            let t = a.to_string();
            let re = match t.parse::<Ipv4Addr>() {
                Ok(a2) if a2 == a => "same",
                Ok(_) => "diff",
                Err(_) => "none",
            };
            format!("disp {} | re {}", hex(t.as_bytes()), re)
        }
        _ => "bad-op".into(),
    }
}
