//! engine `tables`: dump the behaviour of the real code over its finite domains as a Lean file
//! (`ZmqVerif/Gen/Tables.lean`).  Every call runs under `catch_unwind`; a panic is recorded as `none`.
use crate::codec::sock_type;
use std::convert::TryFrom;
use std::panic::catch_unwind;
use zeromq::__verif::{parse_mechanism, Codec};
use zeromq::SocketType;

pub const NAMES: [&str; 12] = [
    "PAIR", "PUB", "SUB", "REQ", "REP", "DEALER", "ROUTER", "PULL", "PUSH", "XPUB", "XSUB", "STREAM",
];
/// the nine socket types the library implements
pub const IMPLEMENTED: [&str; 9] = ["PUB", "SUB", "REQ", "REP", "DEALER", "ROUTER", "PULL", "PUSH", "XPUB"];

fn lean_bytes(b: &[u8]) -> String {
    format!("[{}]", b.iter().map(|x| x.to_string()).collect::<Vec<_>>().join(", "))
}

fn type_index(t: SocketType) -> usize {
    t as usize
}

pub fn dump() -> String {
    let mut s = String::new();
    s.push_str("/-! REGENERATED on every run by `zmqharness tables` from the behaviour of the real code.\n");
    s.push_str("Do not edit: `./check` overwrites this file whenever the code's behaviour changes. -/\n");
    s.push_str("namespace Zmq.Gen\n\n");

    // greeting
    let g = Codec::encode_greeting();
    s.push_str(&format!("def greetingBytes : List UInt8 :=\n  {}\n\n", lean_bytes(&g)));

    // READY per implemented type, no identity
    s.push_str("/-- (index of the socket type, bytes of the READY command it sends with no identity) -/\n");
    s.push_str("def readyBytes : List (Nat × List UInt8) := [\n");
    let mut rows = vec![];
    for n in IMPLEMENTED {
        let t = sock_type(n).unwrap();
        let r = catch_unwind(|| Codec::encode_ready(t, None));
        if let Ok(b) = r {
            rows.push(format!("  ({}, {})", type_index(t), lean_bytes(&b)));
        }
    }
    s.push_str(&rows.join(",\n"));
    s.push_str("]\n\n");

    // compatibility: all 144 ordered pairs
    s.push_str("/-- `SocketType::compatible` on all 144 ordered pairs; `none` = the call panicked -/\n");
    s.push_str("def compat : List (Nat × Nat × Option Bool) := [\n");
    let mut rows = vec![];
    for a in NAMES {
        for b in NAMES {
            let (ta, tb) = (sock_type(a).unwrap(), sock_type(b).unwrap());
            let r = catch_unwind(move || ta.compatible(tb));
            let v = match r {
                Ok(true) => "some true",
                Ok(false) => "some false",
                Err(_) => "none",
            };
            rows.push(format!("  ({}, {}, {})", type_index(ta), type_index(tb), v));
        }
    }
    s.push_str(&rows.join(",\n"));
    s.push_str("]\n\n");

    // names
    s.push_str("/-- `SocketType::as_str` -/\ndef typeName : List (Nat × List UInt8) := [\n");
    let rows: Vec<String> = NAMES
        .iter()
        .map(|n| {
            let t = sock_type(n).unwrap();
            format!("  ({}, {})", type_index(t), lean_bytes(t.as_str().as_bytes()))
        })
        .collect();
    s.push_str(&rows.join(",\n"));
    s.push_str("]\n\n");

    // parse: names + near misses
    let mut probes: Vec<Vec<u8>> = NAMES.iter().map(|n| n.as_bytes().to_vec()).collect();
    for extra in [
        "", "pub", "Pub", "PUB ", " PUB", "PUBX", "XPUBX", "PU", "REQREP", "ROUTE", "DEALER\0", "STREAMS", "PAIRS",
        "SERVER", "CLIENT", "RADIO", "DISH", "GATHER", "SCATTER", "PEER", "CHANNEL", "XREQ", "XREP",
    ] {
        probes.push(extra.as_bytes().to_vec());
    }
    s.push_str("/-- `SocketType::try_from(&[u8])` on the twelve names and a list of near-misses -/\n");
    s.push_str("def typeParse : List (List UInt8 × Option Nat) := [\n");
    let rows: Vec<String> = probes
        .iter()
        .map(|p| {
            let r = SocketType::try_from(&p[..]);
            let v = match r {
                Ok(t) => format!("some {}", type_index(t)),
                Err(_) => "none".into(),
            };
            format!("  ({}, {})", lean_bytes(p), v)
        })
        .collect();
    s.push_str(&rows.join(",\n"));
    s.push_str("]\n\n");

    // mechanisms: name × padding variants
    s.push_str("/-- `ZmqMechanism::try_from` on 20-byte fields; 0 = NULL, 1 = PLAIN, 2 = CURVE -/\n");
    s.push_str("def mechParse : List (List UInt8 × Option Nat) := [\n");
    let mut rows = vec![];
    for name in ["NULL", "PLAIN", "CURVE", "GSSAPI", "", "null", "NULLX", "NUL", "PLAIN2", "CURVE\u{1}"] {
        for garbage in [false, true] {
            let mut f = vec![0u8; 20];
            let nb = name.as_bytes();
            f[..nb.len()].copy_from_slice(nb);
            if garbage && nb.len() + 2 < 20 {
                f[nb.len() + 1] = b'X';
                f[19] = 0xff;
            }
            let r = catch_unwind(|| parse_mechanism(&f));
            let v = match r {
                Ok(Ok(m)) => match m.as_str() {
                    "NULL" => "some 0".to_string(),
                    "PLAIN" => "some 1".to_string(),
                    "CURVE" => "some 2".to_string(),
                    _ => "some 99".to_string(),
                },
                _ => "none".to_string(),
            };
            rows.push(format!("  ({}, {})", lean_bytes(&f), v));
        }
    }
    s.push_str(&rows.join(",\n"));
    s.push_str("]\n\n");

    s.push_str(&format!(
        "def identityMax : Nat := {}\n\n",
        zeromq::util::PeerIdentity::MAX_LENGTH
    ));
    s.push_str("end Zmq.Gen\n");
    s
}
