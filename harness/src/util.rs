//! Shared helpers: hex, generated bodies, canonical printing.

pub fn hex(b: &[u8]) -> String {
    const H: &[u8; 16] = b"0123456789abcdef";
    let mut s = String::with_capacity(b.len() * 2);
    for x in b {
        s.push(H[(x >> 4) as usize] as char);
        s.push(H[(x & 15) as usize] as char);
    }
    s
}

pub fn unhex(s: &str) -> Result<Vec<u8>, String> {
    let s = s.as_bytes();
    if s.len() % 2 != 0 {
        return Err("odd hex".into());
    }
    let v = |c: u8| -> Result<u8, String> {
        match c {
            b'0'..=b'9' => Ok(c - b'0'),
            b'a'..=b'f' => Ok(c - b'a' + 10),
            b'A'..=b'F' => Ok(c - b'A' + 10),
            _ => Err("bad hex".into()),
        }
    };
    let mut out = Vec::with_capacity(s.len() / 2);
    for p in s.chunks(2) {
        out.push(v(p[0])? * 16 + v(p[1])?);
    }
    Ok(out)
}

/// byte `i` of the generated body `@len:seed` (same function in the Lean driver)
pub fn gen_byte(seed: u64, i: u64) -> u8 {
    let x = (seed.wrapping_mul(1_000_003).wrapping_add(i).wrapping_mul(2_654_435_761)) & 0xffff_ffff;
    ((x >> 24) & 0xff) as u8
}

/// `hex` | `@len:seed` | `.` (empty), joined by `+`
pub fn parse_bytes(tok: &str) -> Result<Vec<u8>, String> {
    let mut out = Vec::new();
    for part in tok.split('+') {
        if part == "." || part.is_empty() {
            continue;
        }
        if let Some(rest) = part.strip_prefix('@') {
            let mut it = rest.split(':');
            let len: u64 = it.next().ok_or("len")?.parse().map_err(|_| "len")?;
            let seed: u64 = it.next().ok_or("seed")?.parse().map_err(|_| "seed")?;
            out.reserve(len as usize);
            for i in 0..len {
                out.push(gen_byte(seed, i));
            }
        } else {
            out.extend(unhex(part)?);
        }
    }
    Ok(out)
}

/// frames separated by `,`
pub fn parse_msg(tok: &str) -> Result<Vec<Vec<u8>>, String> {
    tok.split(',').map(parse_bytes).collect()
}

pub fn fnv64(b: &[u8]) -> u64 {
    let mut h: u64 = 0xcbf29ce484222325;
    for x in b {
        h ^= *x as u64;
        h = h.wrapping_mul(0x100000001b3);
    }
    h
}

pub fn full_hex() -> bool {
    std::env::var("VERIF_FULLHEX").map(|v| v == "1").unwrap_or(false)
}

/// canonical byte string: `.` if empty, hex up to 48 bytes, else first 16 bytes + `#len:fnv64`
pub fn show_bytes(b: &[u8]) -> String {
    if b.is_empty() {
        ".".into()
    } else if b.len() <= 200 || full_hex() {
        hex(b)
    } else {
        format!("{}#{}:{:016x}", hex(&b[..16]), b.len(), fnv64(b))
    }
}

pub fn show_msg(frames: &[Vec<u8>]) -> String {
    if frames.is_empty() {
        return "EMPTYMSG".into();
    }
    frames.iter().map(|f| show_bytes(f)).collect::<Vec<_>>().join(",")
}

/// Variant path of a `Debug`-formatted error, never its text:
/// `Decode("..")` -> `Decode`; `Codec(Decode(".."))` -> `Codec.Decode`; `NoMessage` -> `NoMessage`;
/// `Codec(Io(Custom { kind: UnexpectedEof, .. }))` -> `Codec.Io`
pub fn err_class(dbg: &str) -> String {
    let mut parts: Vec<String> = Vec::new();
    let mut cur = String::new();
    for c in dbg.chars() {
        if c.is_alphanumeric() || c == '_' {
            cur.push(c);
            continue;
        }
        let is_variant = cur.chars().next().map(|x| x.is_uppercase()).unwrap_or(false);
        if c == '(' && is_variant && parts.len() < 2 {
            parts.push(cur.clone());
            cur.clear();
            continue;
        }
        if is_variant && parts.len() < 2 && !matches!(cur.as_str(), "Custom" | "Os" | "Kind" | "Error") {
            parts.push(cur.clone());
        }
        break;
    }
    if parts.is_empty() && !cur.is_empty() {
        parts.push(cur);
    } else if !cur.is_empty()
        && parts.len() < 2
        && cur.chars().next().unwrap().is_uppercase()
        && dbg.ends_with(&cur)
        && !matches!(cur.as_str(), "Custom" | "Os" | "Kind" | "Error")
    {
        parts.push(cur);
    }
    parts.join(".")
}

pub struct Rng(pub u64);
impl Rng {
    pub fn next(&mut self) -> u64 {
        self.0 ^= self.0 << 13;
        self.0 ^= self.0 >> 7;
        self.0 ^= self.0 << 17;
        self.0
    }
}
