//! Scripted in-memory byte pipe handed to the library in place of a TCP/IPC stream.
//!
//! The script controls which bytes become readable and when (`reveal`), end of stream (`eof`),
//! read errors, write *credit* (accept k bytes, then `Pending`), write errors, and keeps a tap of
//! everything the library wrote.  Waker discipline is that of a kernel socket: `Pending` stores
//! exactly one waker per direction (replacing the previous), a readiness change takes and fires it.
//! Both halves record their own `Drop`, which is how "the connection was released" is observed.
use futures::{AsyncRead, AsyncWrite};
use std::collections::VecDeque;
use std::io;
use std::pin::Pin;
use std::sync::{Arc, Mutex};
use std::task::{Context, Poll, Waker};

#[derive(Default)]
pub struct PipeState {
    pub inbound: VecDeque<u8>,
    pub all_revealed: Vec<u8>,
    pub in_eof: bool,
    pub rd_err: Option<io::ErrorKind>,
    pub read_waker: Option<Waker>,
    pub outbound: Vec<u8>,
    pub seen: usize,
    /// bytes the library may still write; `None` = unlimited
    pub credit: Option<usize>,
    pub wr_err: Option<io::ErrorKind>,
    /// the write error is transient: the write that reports it clears it
    pub wr_err_once: bool,
    pub write_waker: Option<Waker>,
    pub read_dropped: bool,
    pub write_dropped: bool,
    pub reads: usize,
    /// cooperative transport: after every `k` reads that returned data the next read wakes its caller and returns
    /// `Pending` although data is available (what a tokio resource does when the task's budget is used up)
    pub yield_every: Option<usize>,
    pub ready_reads: usize,
    /// at most this many bytes per read
    pub chunk: Option<usize>,
}

#[derive(Clone)]
pub struct Pipe(pub Arc<Mutex<PipeState>>);

pub struct R(pub Pipe);
pub struct W(pub Pipe);

impl Drop for R {
    fn drop(&mut self) {
        let w = {
            let mut s = self.0 .0.lock().unwrap();
            s.read_dropped = true;
            s.read_waker.take()
        };
        drop(w);
    }
}
impl Drop for W {
    fn drop(&mut self) {
        let w = {
            let mut s = self.0 .0.lock().unwrap();
            s.write_dropped = true;
            s.write_waker.take()
        };
        drop(w);
    }
}

impl AsyncRead for R {
    fn poll_read(self: Pin<&mut Self>, cx: &mut Context<'_>, buf: &mut [u8]) -> Poll<io::Result<usize>> {
        let mut s = self.0 .0.lock().unwrap();
        s.reads += 1;
        if s.inbound.is_empty() {
            if let Some(k) = s.rd_err {
                return Poll::Ready(Err(io::Error::new(k, "scripted read error")));
            }
            if s.in_eof {
                return Poll::Ready(Ok(0));
            }
            // replace the stored waker (drop the old one outside the lock is not needed: it cannot re-enter)
            s.read_waker = Some(cx.waker().clone());
            return Poll::Pending;
        }
        if let Some(k) = s.yield_every {
            if s.ready_reads >= k {
                s.ready_reads = 0;
                drop(s);
                cx.waker().wake_by_ref();
                return Poll::Pending;
            }
            s.ready_reads += 1;
        }
        let n = buf.len().min(s.inbound.len()).min(s.chunk.unwrap_or(usize::MAX));
        for b in buf.iter_mut().take(n) {
            *b = s.inbound.pop_front().unwrap();
        }
        Poll::Ready(Ok(n))
    }
}

impl AsyncWrite for W {
    fn poll_write(self: Pin<&mut Self>, cx: &mut Context<'_>, buf: &[u8]) -> Poll<io::Result<usize>> {
        let mut s = self.0 .0.lock().unwrap();
        if let Some(k) = s.wr_err {
            if s.wr_err_once {
                s.wr_err = None;
                s.wr_err_once = false;
            }
            return Poll::Ready(Err(io::Error::new(k, "scripted write error")));
        }
        let n = match s.credit {
            None => buf.len(),
            Some(0) => {
                s.write_waker = Some(cx.waker().clone());
                return Poll::Pending;
            }
            Some(c) => buf.len().min(c),
        };
        if let Some(c) = s.credit.as_mut() {
            *c -= n;
        }
        s.outbound.extend_from_slice(&buf[..n]);
        Poll::Ready(Ok(n))
    }
    fn poll_flush(self: Pin<&mut Self>, _cx: &mut Context<'_>) -> Poll<io::Result<()>> {
        Poll::Ready(Ok(()))
    }
    fn poll_close(self: Pin<&mut Self>, _cx: &mut Context<'_>) -> Poll<io::Result<()>> {
        Poll::Ready(Ok(()))
    }
}

impl Pipe {
    pub fn new() -> Self {
        Pipe(Arc::new(Mutex::new(PipeState::default())))
    }
    pub fn halves(&self) -> (R, W) {
        (R(self.clone()), W(self.clone()))
    }
    fn fire_read(&self, f: impl FnOnce(&mut PipeState)) {
        let w = {
            let mut s = self.0.lock().unwrap();
            f(&mut s);
            s.read_waker.take()
        };
        if let Some(w) = w {
            w.wake();
        }
    }
    fn fire_write(&self, f: impl FnOnce(&mut PipeState)) {
        let w = {
            let mut s = self.0.lock().unwrap();
            f(&mut s);
            s.write_waker.take()
        };
        if let Some(w) = w {
            w.wake();
        }
    }
    pub fn reveal(&self, b: &[u8]) {
        self.fire_read(|s| {
            s.inbound.extend(b.iter().copied());
            s.all_revealed.extend_from_slice(b);
        });
    }
    pub fn eof(&self) {
        self.fire_read(|s| s.in_eof = true);
    }
    pub fn rderr(&self, k: io::ErrorKind) {
        self.fire_read(|s| s.rd_err = Some(k));
    }
    pub fn credit(&self, c: Option<usize>) {
        self.fire_write(|s| {
            s.credit = match (s.credit, c) {
                (_, None) => None,
                (Some(a), Some(b)) => Some(a + b),
                (None, Some(_)) => None,
            }
        });
    }
    pub fn set_yieldy(&self, k: Option<usize>, chunk: Option<usize>) {
        let mut s = self.0.lock().unwrap();
        s.yield_every = k;
        s.chunk = chunk;
        s.ready_reads = 0;
    }
    pub fn set_credit(&self, c: Option<usize>) {
        self.fire_write(|s| s.credit = c);
    }
    pub fn wrerr(&self, k: io::ErrorKind) {
        self.fire_write(|s| s.wr_err = Some(k));
    }
    pub fn wrerr_once(&self, k: io::ErrorKind) {
        self.fire_write(|s| {
            s.wr_err = Some(k);
            s.wr_err_once = true;
        });
    }
    /// bytes written since the last call
    pub fn take_wire(&self) -> Vec<u8> {
        let mut s = self.0.lock().unwrap();
        let v = s.outbound[s.seen..].to_vec();
        s.seen = s.outbound.len();
        v
    }
}

pub fn err_kind(s: &str) -> io::ErrorKind {
    match s {
        "BrokenPipe" => io::ErrorKind::BrokenPipe,
        "ConnectionReset" => io::ErrorKind::ConnectionReset,
        "ConnectionAborted" => io::ErrorKind::ConnectionAborted,
        "TimedOut" => io::ErrorKind::TimedOut,
        "Interrupted" => io::ErrorKind::Interrupted,
        "WouldBlock" => io::ErrorKind::WouldBlock,
        "WriteZero" => io::ErrorKind::WriteZero,
        "UnexpectedEof" => io::ErrorKind::UnexpectedEof,
        _ => io::ErrorKind::Other,
    }
}
