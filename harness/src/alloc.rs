//! Counting global allocator: current and peak heap use, so that "allocates out of proportion to
//! the bytes received" is an observable of a case.
use std::alloc::{GlobalAlloc, Layout, System};
use std::sync::atomic::{AtomicUsize, Ordering};

pub struct Counting;

static CUR: AtomicUsize = AtomicUsize::new(0);
static PEAK: AtomicUsize = AtomicUsize::new(0);
/// largest single request seen since the last reset (even if it failed)
static MAXREQ: AtomicUsize = AtomicUsize::new(0);

unsafe impl GlobalAlloc for Counting {
    unsafe fn alloc(&self, l: Layout) -> *mut u8 {
        MAXREQ.fetch_max(l.size(), Ordering::Relaxed);
        let p = System.alloc(l);
        if !p.is_null() {
            let c = CUR.fetch_add(l.size(), Ordering::Relaxed) + l.size();
            PEAK.fetch_max(c, Ordering::Relaxed);
        }
        p
    }
    unsafe fn dealloc(&self, p: *mut u8, l: Layout) {
        CUR.fetch_sub(l.size(), Ordering::Relaxed);
        System.dealloc(p, l)
    }
    unsafe fn realloc(&self, p: *mut u8, l: Layout, new: usize) -> *mut u8 {
        MAXREQ.fetch_max(new, Ordering::Relaxed);
        let q = System.realloc(p, l, new);
        if !q.is_null() {
            if new >= l.size() {
                let c = CUR.fetch_add(new - l.size(), Ordering::Relaxed) + (new - l.size());
                PEAK.fetch_max(c, Ordering::Relaxed);
            } else {
                CUR.fetch_sub(l.size() - new, Ordering::Relaxed);
            }
        }
        q
    }
}

/// start a measurement window; returns the baseline
pub fn reset() -> usize {
    let c = CUR.load(Ordering::Relaxed);
    PEAK.store(c, Ordering::Relaxed);
    MAXREQ.store(0, Ordering::Relaxed);
    c
}

/// (peak growth over the baseline, largest single request) since `reset`
pub fn window(base: usize) -> (usize, usize) {
    (PEAK.load(Ordering::Relaxed).saturating_sub(base), MAXREQ.load(Ordering::Relaxed))
}
