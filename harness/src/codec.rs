//! engine `codec`: the real `ZmqCodec` (encode, chunked decode), the real READY / greeting bytes.
use crate::util::*;
use bytes::BytesMut;
use std::panic::{catch_unwind, AssertUnwindSafe};
use zeromq::__verif::{Codec, Item};
use zeromq::SocketType;

pub fn sock_type(s: &str) -> Option<SocketType> {
    Some(match s {
        "PAIR" => SocketType::PAIR,
        "PUB" => SocketType::PUB,
        "SUB" => SocketType::SUB,
        "REQ" => SocketType::REQ,
        "REP" => SocketType::REP,
        "DEALER" => SocketType::DEALER,
        "ROUTER" => SocketType::ROUTER,
        "PULL" => SocketType::PULL,
        "PUSH" => SocketType::PUSH,
        "XPUB" => SocketType::XPUB,
        "XSUB" => SocketType::XSUB,
        "STREAM" => SocketType::STREAM,
        _ => return None,
    })
}

pub fn show_item(i: &Item) -> String {
    match i {
        Item::Greeting { version, mechanism, as_server } => {
            format!("G{}.{}/{}/{}", version.0, version.1, mechanism, *as_server as u8)
        }
        Item::Command { name, props } => {
            let ps: Vec<String> = props
                .iter()
                .map(|(k, v)| format!("{}={}", show_bytes(k.as_bytes()), show_bytes(v)))
                .collect();
            format!("C:{}{{{}}}", name, ps.join(";"))
        }
        Item::Message(m) => format!("M[{}]", show_msg(m)),
    }
}

pub struct CodecEngine {
    codec: Codec,
    buf: BytesMut,
    dead: bool,
}

impl CodecEngine {
    pub fn new() -> Self {
        CodecEngine { codec: Codec::new(), buf: BytesMut::new(), dead: false }
    }

    pub fn op(&mut self, words: &[&str]) -> String {
        match words[0] {
            "case" => {
                *self = CodecEngine::new();
                format!("case {}", words.get(1).unwrap_or(&""))
            }
            "enc" => {
                let m = match parse_msg(words[1]) {
                    Ok(m) => m,
                    Err(e) => return format!("bad-op {}", e),
                };
                match catch_unwind(|| Codec::encode_message(m)) {
                    Ok(w) => format!("wire {}", show_bytes(&w)),
                    Err(_) => "PANIC".into(),
                }
            }
            // encode with the library, then decode those bytes with a fresh library decoder
            "roundtrip" => {
                let m = match parse_msg(words[1]) {
                    Ok(m) => m,
                    Err(e) => return format!("bad-op {}", e),
                };
                let r = catch_unwind(|| {
                    let w = Codec::encode_message(m);
                    let mut c = Codec::new();
                    let mut buf = BytesMut::new();
                    buf.extend_from_slice(&Codec::encode_greeting());
                    let _ = c.decode(&mut buf);
                    buf.extend_from_slice(&w);
                    let mut out = vec![];
                    loop {
                        match c.decode(&mut buf) {
                            Ok(Some(i)) => out.push(show_item(&i)),
                            Ok(None) => {
                                out.push("none".to_string());
                                break;
                            }
                            Err(e) => {
                                out.push(format!("err {}", err_class(&e)));
                                break;
                            }
                        }
                    }
                    format!("rt {} | left {}", out.join(" ; "), buf.len())
                });
                r.unwrap_or_else(|_| "PANIC".into())
            }
            "encgreeting" => format!("wire {}", hex(&Codec::encode_greeting())),
            "encready" => {
                let t = match sock_type(words[1]) {
                    Some(t) => t,
                    None => return "bad-op type".into(),
                };
                let id = if words[2] == "none" { None } else { Some(parse_bytes(words[2]).unwrap()) };
                match catch_unwind(|| Codec::encode_ready(t, id)) {
                    Ok(w) => format!("wire {}", hex(&w)),
                    Err(_) => "PANIC".into(),
                }
            }
            "newdec" => {
                self.codec = Codec::new();
                self.buf = BytesMut::new();
                self.dead = false;
                "ok".into()
            }
            // hostile feed: like `feed`, but on a thread with a small fixed stack and inside a heap
            // measurement window around the decode calls only:
            // "| heap ok" iff peak growth and the largest single request <= 64 x (bytes buffered + chunk) + 32 KiB
            "hfeed" => {
                let chunk = match parse_bytes(words[1]) {
                    Ok(c) => c,
                    Err(e) => return format!("bad-op {}", e),
                };
                if self.dead {
                    return "dead".into();
                }
                let budget = 64 * (self.buf.len() + chunk.len()) + (32 << 10);
                let me = &mut *self;
                let res = std::thread::scope(|sc| {
                    std::thread::Builder::new()
                        .stack_size(256 * 1024)
                        .spawn_scoped(sc, move || {
                            let base = crate::alloc::reset();
                            me.buf.extend_from_slice(&chunk);
                            let raw = me.decode_all();
                            let (peak, maxreq) = crate::alloc::window(base);
                            (raw, peak, maxreq)
                        })
                        .unwrap()
                        .join()
                });
                match res {
                    Ok((raw, peak, maxreq)) => {
                        let heap = if peak <= budget && maxreq <= budget {
                            "ok".to_string()
                        } else {
                            format!("EXCESS peak={} maxreq={} budget={}", peak, maxreq, budget)
                        };
                        format!("{} | heap {}", self.render(raw), heap)
                    }
                    Err(_) => "THREAD-PANIC".into(),
                }
            }
            // feed a chunk, then call decode until Ok(None) / Err / panic; report items in order
            "feed" => {
                let chunk = match parse_bytes(words[1]) {
                    Ok(c) => c,
                    Err(e) => return format!("bad-op {}", e),
                };
                if self.dead {
                    return "dead".into();
                }
                self.buf.extend_from_slice(&chunk);
                self.feed_loop()
            }
            _ => "bad-op".into(),
        }
    }

    fn feed_loop(&mut self) -> String {
        let raw = self.decode_all();
        self.render(raw)
    }

    fn render(&self, raw: Vec<Result<Option<Item>, Option<String>>>) -> String {
        let out: Vec<String> = raw
            .iter()
            .map(|r| match r {
                Ok(Some(i)) => show_item(i),
                Ok(None) => "none".to_string(),
                Err(Some(e)) => format!("err {}", err_class(e)),
                Err(None) => "PANIC".to_string(),
            })
            .collect();
        format!("items {} | left {}", out.join(" ; "), self.buf.len())
    }

    /// call `decode` until `Ok(None)`, an error or a panic
    fn decode_all(&mut self) -> Vec<Result<Option<Item>, Option<String>>> {
        let mut out = Vec::new();
        loop {
            let r = catch_unwind(AssertUnwindSafe(|| self.codec.decode(&mut self.buf)));
            match r {
                Ok(Ok(Some(i))) => out.push(Ok(Some(i))),
                Ok(Ok(None)) => {
                    out.push(Ok(None));
                    break;
                }
                Ok(Err(e)) => {
                    out.push(Err(Some(e)));
                    self.dead = true;
                    break;
                }
                Err(_) => {
                    out.push(Err(None));
                    self.dead = true;
                    break;
                }
            }
        }
        out
    }
}
