//! engine `net`: the real multi-thread tokio runtime, real TCP (v4/v6) and IPC listeners, raw ZMTP
//! peers written here.  Outcomes are CLASSES (accepted / refused / eof / open / handshake-ok / …),
//! awaited by polling for a condition up to a generous deadline — never by a fixed sleep; a
//! negative verdict ("open", "none") is only reported after the full deadline.
use crate::util::*;
use crate::world::Sock;
use std::collections::HashMap;
use std::path::PathBuf;
use std::time::Duration;
use tokio::io::{AsyncReadExt, AsyncWriteExt};
use tokio::net::{TcpStream, UnixStream};
use zeromq::*;

const POS_DEADLINE_FULL: Duration = Duration::from_millis(5000);
const POS_DEADLINE_SHORT: Duration = Duration::from_millis(1500);
/// positive waits that ran into their deadline so far (this process): on a healthy tree none does; once several
/// have, the tree is broken and later positive waits get the short deadline so that the run ends in minutes
static EXPIRED: std::sync::atomic::AtomicUsize = std::sync::atomic::AtomicUsize::new(0);
fn pos_deadline() -> Duration {
    if EXPIRED.load(std::sync::atomic::Ordering::Relaxed) >= 3 {
        POS_DEADLINE_SHORT
    } else {
        POS_DEADLINE_FULL
    }
}
fn note_expired() {
    EXPIRED.fetch_add(1, std::sync::atomic::Ordering::Relaxed);
}
const NEG_DEADLINE: Duration = Duration::from_millis(400);

enum Raw {
    Tcp(TcpStream),
    Unix(UnixStream),
}

impl Raw {
    async fn write_all(&mut self, b: &[u8]) -> std::io::Result<()> {
        match self {
            Raw::Tcp(s) => s.write_all(b).await,
            Raw::Unix(s) => s.write_all(b).await,
        }
    }
    async fn read(&mut self, buf: &mut [u8]) -> std::io::Result<usize> {
        match self {
            Raw::Tcp(s) => s.read(buf).await,
            Raw::Unix(s) => s.read(buf).await,
        }
    }
}

struct RawConn {
    io: Raw,
    inbuf: Vec<u8>,
    eof: bool,
}

pub struct Net {
    rt: tokio::runtime::Runtime,
    socks: HashMap<usize, Sock>,
    eps: Vec<Endpoint>,
    raws: HashMap<usize, RawConn>,
    monitors: HashMap<usize, futures::channel::mpsc::Receiver<SocketEvent>>,
    dir: PathBuf,
    nipc: usize,
    v6: bool,
    /// descriptors hoarded by `fdhoard`
    hoard: Vec<std::fs::File>,
    /// loopback ports reserved by `reserve`: bound, NOT listening (connections are refused) until `latelisten`
    reserved: HashMap<usize, (tokio::net::TcpSocket, std::net::SocketAddr)>,
}

fn greeting() -> Vec<u8> {
    let mut g = vec![0u8; 64];
    g[0] = 0xff;
    g[9] = 0x7f;
    g[10] = 3;
    g[12..16].copy_from_slice(b"NULL");
    g
}

fn ready(t: &str) -> Vec<u8> {
    let mut body = vec![5u8];
    body.extend_from_slice(b"READY");
    body.push(11);
    body.extend_from_slice(b"Socket-Type");
    body.extend_from_slice(&(t.len() as u32).to_be_bytes());
    body.extend_from_slice(t.as_bytes());
    let mut v = vec![0x04, body.len() as u8];
    v.extend(body);
    v
}

fn encode_msg(frames: &[Vec<u8>]) -> Vec<u8> {
    let mut out = vec![];
    for (i, f) in frames.iter().enumerate() {
        let more = i + 1 != frames.len();
        if f.len() > 255 {
            out.push(if more { 3 } else { 2 });
            out.extend_from_slice(&(f.len() as u64).to_be_bytes());
        } else {
            out.push(if more { 1 } else { 0 });
            out.push(f.len() as u8);
        }
        out.extend_from_slice(f);
    }
    out
}

/// try to cut one complete message off the front of `b`
fn take_msg(b: &mut Vec<u8>) -> Option<Vec<Vec<u8>>> {
    let mut i = 0;
    let mut frames = vec![];
    loop {
        if i >= b.len() {
            return None;
        }
        let fl = b[i];
        let (len, hdr) = if fl & 2 != 0 {
            if i + 9 > b.len() {
                return None;
            }
            let mut l = [0u8; 8];
            l.copy_from_slice(&b[i + 1..i + 9]);
            (u64::from_be_bytes(l) as usize, 9)
        } else {
            if i + 2 > b.len() {
                return None;
            }
            (b[i + 1] as usize, 2)
        };
        if i + hdr + len > b.len() {
            return None;
        }
        if fl & 4 == 0 {
            frames.push(b[i + hdr..i + hdr + len].to_vec());
        }
        i += hdr + len;
        if fl & 1 == 0 && fl & 4 == 0 {
            b.drain(..i);
            return Some(frames);
        }
        if fl & 4 != 0 {
            // a command frame: skip it
            b.drain(..i);
            i = 0;
            frames.clear();
        }
    }
}

fn peer_type_for(local: &str) -> &'static str {
    match local {
        "PUB" | "XPUB" => "SUB",
        "SUB" => "PUB",
        "REQ" => "REP",
        "REP" => "REQ",
        "DEALER" => "ROUTER",
        "ROUTER" => "DEALER",
        "PULL" => "PUSH",
        "PUSH" => "PULL",
        _ => "PAIR",
    }
}

impl Net {
    pub fn new() -> Self {
        let rt = tokio::runtime::Builder::new_multi_thread().worker_threads(4).enable_all().build().unwrap();
        let dir = std::env::var("VERIF_IPC_DIR").map(PathBuf::from).unwrap_or_else(|_| std::env::temp_dir());
        let dir = dir.join(format!("zmqnet-{}", std::process::id()));
        let _ = std::fs::create_dir_all(&dir);
        let v6 = std::net::TcpListener::bind("[::1]:0").is_ok();
        Net { rt, socks: HashMap::new(), eps: vec![], raws: HashMap::new(), monitors: HashMap::new(), dir, nipc: 0, v6, hoard: vec![], reserved: HashMap::new() }
    }

    fn ep_name(&mut self, e: &Endpoint) -> String {
        let i = match self.eps.iter().position(|x| x == e) {
            Some(i) => i,
            None => {
                self.eps.push(e.clone());
                self.eps.len() - 1
            }
        };
        format!("ep#{}", i)
    }

    fn ep_of(&self, tok: &str) -> Option<Endpoint> {
        tok.strip_prefix("ep#").and_then(|n| n.parse::<usize>().ok()).and_then(|i| self.eps.get(i).cloned())
    }

    fn sock_type(&self, s: usize) -> &'static str {
        match self.socks.get(&s) {
            Some(Sock::Pub(_)) => "PUB",
            Some(Sock::Sub(_)) => "SUB",
            Some(Sock::Req(_)) => "REQ",
            Some(Sock::Rep(_)) => "REP",
            Some(Sock::Dealer(_)) => "DEALER",
            Some(Sock::Router(_)) => "ROUTER",
            Some(Sock::Pull(_)) => "PULL",
            Some(Sock::Push(_)) => "PUSH",
            Some(Sock::XPub(_)) => "XPUB",
            None => "NONE",
        }
    }

    async fn raw_connect(ep: &Endpoint) -> Option<Raw> {
        match ep {
            Endpoint::Tcp(h, p) => {
                let host = h.to_string();
                match tokio::time::timeout(pos_deadline(), TcpStream::connect((host.as_str(), *p))).await {
                    Ok(Ok(s)) => Some(Raw::Tcp(s)),
                    Err(_) => {
                        note_expired();
                        None
                    }
                    _ => None,
                }
            }
            Endpoint::Ipc(Some(path)) => match UnixStream::connect(path).await {
                Ok(s) => Some(Raw::Unix(s)),
                Err(_) => None,
            },
            _ => None,
        }
    }

    /// read until `pred(inbuf)` or EOF or deadline; returns whether pred held
    async fn read_until(c: &mut RawConn, deadline: Duration, pred: impl Fn(&RawConn) -> bool) -> bool {
        let end = tokio::time::Instant::now() + deadline;
        loop {
            if pred(c) {
                return true;
            }
            if c.eof {
                return false;
            }
            let mut buf = [0u8; 4096];
            match tokio::time::timeout_at(end, c.io.read(&mut buf)).await {
                Err(_) => {
                    let ok = pred(c);
                    if !ok && deadline > NEG_DEADLINE {
                        note_expired();
                    }
                    return ok;
                }
                Ok(Ok(0)) | Ok(Err(_)) => c.eof = true,
                Ok(Ok(n)) => c.inbuf.extend_from_slice(&buf[..n]),
            }
        }
    }

    pub fn op(&mut self, w: &[&str]) -> String {
        let num = |i: usize| -> Option<usize> { w.get(i).and_then(|s| s.parse().ok()) };
        match w[0] {
            "case" => {
                self.hoard.clear();
                self.raws.clear();
                self.monitors.clear();
                let socks: Vec<Sock> = self.socks.drain().map(|(_, s)| s).collect();
                self.rt.block_on(async move {
                    drop(socks);
                    tokio::time::sleep(Duration::from_millis(5)).await;
                });
                self.eps.clear();
                format!("case {}", w.get(1).unwrap_or(&""))
            }
            "caps" => format!("caps v6={} ipc=1", self.v6 as u8),
            "sock" => {
                let _g = self.rt.enter();
                match Sock::new_plain(w[2]) {
                    Some(s) => {
                        self.socks.insert(num(1).unwrap(), s);
                        "ok".into()
                    }
                    None => "bad-op type".into(),
                }
            }
            "bind" => {
                let s = num(1).unwrap();
                let target = match w[2] {
                    "tcp4" => "tcp://127.0.0.1:0".to_string(),
                    "tcp6" => "tcp://[::1]:0".to_string(),
                    "localhost" => "tcp://localhost:0".to_string(),
                    "ipc" => {
                        self.nipc += 1;
                        format!("ipc://{}/s{}", self.dir.display(), self.nipc)
                    }
                    "badsyntax" => "tcp://127.0.0.1".to_string(),
                    "badhost" => "tcp://256.256.256.256.invalid.:0".to_string(),
                    other => match other.strip_prefix("dup:").and_then(|t| self.ep_of(t)) {
                        Some(e) => e.to_string(),
                        None => return "bad-op bind-kind".into(),
                    },
                };
                let mut sock = match self.socks.remove(&s) {
                    Some(x) => x,
                    None => return "bad-op no-sock".into(),
                };
                async fn bind_one(sock: &mut Sock, target: &str) -> ZmqResult<Endpoint> {
                    match sock {
                        Sock::Pub(x) => x.bind(target).await,
                        Sock::Sub(x) => x.bind(target).await,
                        Sock::Req(x) => x.bind(target).await,
                        Sock::Rep(x) => x.bind(target).await,
                        Sock::Dealer(x) => x.bind(target).await,
                        Sock::Router(x) => x.bind(target).await,
                        Sock::Pull(x) => x.bind(target).await,
                        Sock::Push(x) => x.bind(target).await,
                        Sock::XPub(x) => x.bind(target).await,
                    }
                }
                async fn unbind_one(sock: &mut Sock, ep: Endpoint) -> ZmqResult<()> {
                    match sock {
                        Sock::Pub(x) => x.unbind(ep).await,
                        Sock::Sub(x) => x.unbind(ep).await,
                        Sock::Req(x) => x.unbind(ep).await,
                        Sock::Rep(x) => x.unbind(ep).await,
                        Sock::Dealer(x) => x.unbind(ep).await,
                        Sock::Router(x) => x.unbind(ep).await,
                        Sock::Pull(x) => x.unbind(ep).await,
                        Sock::Push(x) => x.unbind(ep).await,
                        Sock::XPub(x) => x.unbind(ep).await,
                    }
                }
                let wildcard = matches!(w[2], "tcp4" | "tcp6" | "localhost");
                let known = self.eps.clone();
                let r = self.rt.block_on(async {
                    let mut r = bind_one(&mut sock, &target).await;
                    // The OS may hand a wildcard bind the port of an endpoint this case has unbound earlier (a
                    // DIFFERENT endpoint value, e.g. localhost:P vs 127.0.0.1:P, or the same one): the ids of the
                    // case would then alias one listener. Keep that port occupied, take another, release the first.
                    for _ in 0..4 {
                        let clash = match &r {
                            Ok(Endpoint::Tcp(_, p)) if wildcard => known.iter().any(|k| matches!(k, Endpoint::Tcp(_, q) if q == p)),
                            _ => false,
                        };
                        if !clash {
                            break;
                        }
                        let first = r.unwrap();
                        r = bind_one(&mut sock, &target).await;
                        let _ = unbind_one(&mut sock, first).await;
                    }
                    r
                });
                self.socks.insert(s, sock);
                match r {
                    Ok(ep) => {
                        let zero = matches!(&ep, Endpoint::Tcp(_, 0));
                        // the text form of the returned endpoint must parse back to it
                        let reparse = ep.to_string().parse::<Endpoint>().map(|e| e == ep).unwrap_or(false);
                        format!("ok {}{}{}", self.ep_name(&ep), if zero { " PORT0" } else { "" }, if reparse { "" } else { " TEXT-MISMATCH" })
                    }
                    Err(e) => format!("err {}", err_class(&format!("{:?}", e))),
                }
            }
            "unbind" => {
                let s = num(1).unwrap();
                let ep = match w[2] {
                    "unknown" => "tcp://127.0.0.1:1".parse::<Endpoint>().unwrap(),
                    // near:<how>:ep#k — an endpoint that is NOT bound but close to the bound endpoint k: the same port on
                    // another host / another spelling of the host, the same host on the next port, the path plus a suffix
                    t if t.starts_with("near:") => {
                        let mut it = t.splitn(3, ':');
                        let (_, how, base) = (it.next(), it.next().unwrap_or(""), it.next().unwrap_or(""));
                        let base = match self.ep_of(base) {
                            Some(e) => e,
                            None => return "bad-op no-ep".into(),
                        };
                        let text = base.to_string();
                        let near = if let Some(rest) = text.strip_prefix("tcp://") {
                            let (host, port) = rest.rsplit_once(':').unwrap();
                            let port: u32 = port.parse().unwrap();
                            match how {
                                "host2" => format!("tcp://127.0.0.2:{}", port),
                                "v6" => format!("tcp://[::1]:{}", port),
                                "name" => format!("tcp://localhost:{}", port),
                                "any" => format!("tcp://0.0.0.0:{}", port),
                                _ => format!("tcp://{}:{}", host, if port >= 65535 { port - 1 } else { port + 1 }),
                            }
                        } else {
                            format!("{}x", text)
                        };
                        match near.parse::<Endpoint>() {
                            Ok(e) => e,
                            Err(_) => return "bad-op near".into(),
                        }
                    }
                    t => match self.ep_of(t) {
                        Some(e) => e,
                        None => return "bad-op no-ep".into(),
                    },
                };
                let mut sock = match self.socks.remove(&s) {
                    Some(x) => x,
                    None => return "bad-op no-sock".into(),
                };
                let r = self.rt.block_on(async {
                    match &mut sock {
                        Sock::Pub(x) => x.unbind(ep).await,
                        Sock::Sub(x) => x.unbind(ep).await,
                        Sock::Req(x) => x.unbind(ep).await,
                        Sock::Rep(x) => x.unbind(ep).await,
                        Sock::Dealer(x) => x.unbind(ep).await,
                        Sock::Router(x) => x.unbind(ep).await,
                        Sock::Pull(x) => x.unbind(ep).await,
                        Sock::Push(x) => x.unbind(ep).await,
                        Sock::XPub(x) => x.unbind(ep).await,
                    }
                });
                self.socks.insert(s, sock);
                match r {
                    Ok(()) => "ok".into(),
                    Err(e) => {
                        let c = err_class(&format!("{:?}", e));
                        format!("err {}", if c.starts_with("NoSuchBind") { "NoSuchBind".to_string() } else { c })
                    }
                }
            }
            "binds" => {
                let s = num(1).unwrap();
                let keys: Vec<Endpoint> = match self.socks.get_mut(&s) {
                    Some(Sock::Pub(x)) => x.binds().keys().cloned().collect(),
                    Some(Sock::Sub(x)) => x.binds().keys().cloned().collect(),
                    Some(Sock::Req(x)) => x.binds().keys().cloned().collect(),
                    Some(Sock::Rep(x)) => x.binds().keys().cloned().collect(),
                    Some(Sock::Dealer(x)) => x.binds().keys().cloned().collect(),
                    Some(Sock::Router(x)) => x.binds().keys().cloned().collect(),
                    Some(Sock::Pull(x)) => x.binds().keys().cloned().collect(),
                    Some(Sock::Push(x)) => x.binds().keys().cloned().collect(),
                    Some(Sock::XPub(x)) => x.binds().keys().cloned().collect(),
                    None => return "bad-op no-sock".into(),
                };
                let mut names: Vec<usize> = keys
                    .iter()
                    .map(|e| self.ep_name(e).trim_start_matches("ep#").parse::<usize>().unwrap())
                    .collect();
                names.sort();
                format!("binds {}", names.iter().map(|n| format!("ep#{}", n)).collect::<Vec<_>>().join(","))
            }
            // probe ep#n <peer TYPE>: a fresh well-behaved client: connect + full handshake
            "probe" => {
                let ep = match self.ep_of(w[1]) {
                    Some(e) => e,
                    None => return "bad-op no-ep".into(),
                };
                let t = w.get(2).copied().unwrap_or("PAIR").to_string();
                let path_exists = match &ep {
                    Endpoint::Ipc(Some(p)) => Some(p.exists()),
                    _ => None,
                };
                let r = self.rt.block_on(async {
                    let io = match Net::raw_connect(&ep).await {
                        Some(io) => io,
                        None => return "refused".to_string(),
                    };
                    let mut c = RawConn { io, inbuf: vec![], eof: false };
                    let mut out = greeting();
                    out.extend(ready(&t));
                    if c.io.write_all(&out).await.is_err() {
                        return "connected-write-failed".to_string();
                    }
                    let ok = Net::read_until(&mut c, pos_deadline(), |c| c.inbuf.len() > 64 + 2 && c.inbuf.len() >= 64 + 2 + c.inbuf[65] as usize).await;
                    if ok {
                        "handshake-ok".to_string()
                    } else if c.eof {
                        "connected-then-closed".to_string()
                    } else {
                        "connected-no-handshake".to_string()
                    }
                });
                match path_exists {
                    Some(pe) => format!("{} path={}", r, pe as u8),
                    None => r,
                }
            }
            // probegone ep#n: poll until a fresh connect is refused ("shortly afterwards")
            "probegone" => {
                let ep = match self.ep_of(w[1]) {
                    Some(e) => e,
                    None => return "bad-op no-ep".into(),
                };
                self.rt.block_on(async {
                    let end = tokio::time::Instant::now() + pos_deadline();
                    loop {
                        if Net::raw_connect(&ep).await.is_none() {
                            let gone_path = match &ep {
                                Endpoint::Ipc(Some(p)) => !p.exists(),
                                _ => true,
                            };
                            if gone_path {
                                return "gone".to_string();
                            }
                        }
                        if tokio::time::Instant::now() > end {
                            return "still-accepting".to_string();
                        }
                        tokio::time::sleep(Duration::from_millis(10)).await;
                    }
                })
            }
            // connectout <s> <tr> <c> <peertype>: the socket CONNECTS OUT to a raw listener (tcp4 | ipc) created for
            // this op; the raw side accepts, sends greeting + READY of <peertype> and becomes raw connection <c>.
            // Prints the result of `connect()` and whether the raw side saw the library's greeting + READY.
            "connectout" => {
                let s = num(1).unwrap();
                let c = num(3).unwrap();
                let ptype = w[4].to_string();
                let mut sock = match self.socks.remove(&s) {
                    Some(x) => x,
                    None => return "bad-op no-sock".into(),
                };
                enum L {
                    Tcp(tokio::net::TcpListener),
                    Unix(tokio::net::UnixListener),
                }
                let _g = self.rt.enter();
                let (lst, target) = match w[2] {
                    "ipc" => {
                        self.nipc += 1;
                        let path = self.dir.join(format!("r{}", self.nipc));
                        match tokio::net::UnixListener::bind(&path) {
                            Ok(l) => (L::Unix(l), format!("ipc://{}", path.display())),
                            Err(_) => return "bad-op rawlisten".into(),
                        }
                    }
                    _ => {
                        let l = match self.rt.block_on(tokio::net::TcpListener::bind("127.0.0.1:0")) {
                            Ok(l) => l,
                            Err(_) => return "bad-op rawlisten".into(),
                        };
                        let port = l.local_addr().unwrap().port();
                        (L::Tcp(l), format!("tcp://127.0.0.1:{}", port))
                    }
                };
                drop(_g);
                let (r, raw) = self.rt.block_on(async {
                    let conn = async {
                        let f = async {
                            match &mut sock {
                                Sock::Pub(x) => x.connect(&target).await,
                                Sock::Sub(x) => x.connect(&target).await,
                                Sock::Req(x) => x.connect(&target).await,
                                Sock::Rep(x) => x.connect(&target).await,
                                Sock::Dealer(x) => x.connect(&target).await,
                                Sock::Router(x) => x.connect(&target).await,
                                Sock::Pull(x) => x.connect(&target).await,
                                Sock::Push(x) => x.connect(&target).await,
                                Sock::XPub(x) => x.connect(&target).await,
                            }
                        };
                        match tokio::time::timeout(pos_deadline(), f).await {
                            Err(_) => {
                                note_expired();
                                "none".to_string()
                            }
                            Ok(Ok(())) => "ok".to_string(),
                            Ok(Err(e)) => format!("err {}", err_class(&format!("{:?}", e))),
                        }
                    };
                    let accept = async {
                        let io = match &lst {
                            L::Tcp(l) => tokio::time::timeout(pos_deadline(), l.accept()).await.ok().and_then(|r| r.ok()).map(|(st, _)| Raw::Tcp(st)),
                            L::Unix(l) => tokio::time::timeout(pos_deadline(), l.accept()).await.ok().and_then(|r| r.ok()).map(|(st, _)| Raw::Unix(st)),
                        };
                        match io {
                            None => None,
                            Some(io) => {
                                let mut rc = RawConn { io, inbuf: vec![], eof: false };
                                let mut out = greeting();
                                out.extend(ready(&ptype));
                                let _ = rc.io.write_all(&out).await;
                                let ok = Net::read_until(&mut rc, pos_deadline(), |c| c.inbuf.len() > 66 && c.inbuf.len() >= 66 + c.inbuf[65] as usize).await;
                                Some((rc, ok))
                            }
                        }
                    };
                    tokio::join!(conn, accept)
                });
                self.socks.insert(s, sock);
                match raw {
                    Some((rc, ok)) => {
                        self.raws.insert(c, rc);
                        format!("{} raw={}", r, if ok { "hs-ok" } else { "no-ready" })
                    }
                    None => format!("{} raw=none", r),
                }
            }
            "rawconn" => {
                let c = num(1).unwrap();
                let ep = match self.ep_of(w[2]) {
                    Some(e) => e,
                    None => return "bad-op no-ep".into(),
                };
                match self.rt.block_on(Net::raw_connect(&ep)) {
                    Some(io) => {
                        self.raws.insert(c, RawConn { io, inbuf: vec![], eof: false });
                        "connected".into()
                    }
                    None => "refused".into(),
                }
            }
            // rawabort <ep> <n>: n connections in a row, each aborted (RST: SO_LINGER 0) right after connect, with
            // nothing sent — some of the resets arrive before the library's accept loop has taken the connection
            "rawabort" => {
                let ep = match self.ep_of(w[1]) {
                    Some(e) => e,
                    None => return "bad-op no-ep".into(),
                };
                let n = num(2).unwrap_or(1);
                self.rt.block_on(async {
                    for _ in 0..n {
                        if let Endpoint::Tcp(h, p) = &ep {
                            if let Ok(Ok(st)) = tokio::time::timeout(pos_deadline(), TcpStream::connect((h.to_string().as_str(), *p))).await {
                                let _ = st.set_linger(Some(Duration::from_secs(0)));
                                drop(st);
                            }
                        } else if let Endpoint::Ipc(Some(path)) = &ep {
                            if let Ok(st) = UnixStream::connect(path).await {
                                drop(st);
                            }
                        }
                    }
                });
                "ok".into()
            }
            "rawsend" => {
                let c = num(1).unwrap();
                let b = match parse_bytes(w[2]) {
                    Ok(b) => b,
                    Err(e) => return format!("bad-op {}", e),
                };
                match self.raws.get_mut(&c) {
                    Some(rc) => match self.rt.block_on(rc.io.write_all(&b)) {
                        Ok(()) => "ok".into(),
                        Err(_) => "write-failed".into(),
                    },
                    None => "bad-op no-raw".into(),
                }
            }
            // rawhs c TYPE [offset]: send greeting+READY (only the first `offset` bytes if given)
            "rawhs" => {
                let c = num(1).unwrap();
                let mut out = greeting();
                out.extend(ready(w[2]));
                if let Some(off) = num(3) {
                    out.truncate(off);
                }
                match self.raws.get_mut(&c) {
                    Some(rc) => match self.rt.block_on(rc.io.write_all(&out)) {
                        Ok(()) => "ok".into(),
                        Err(_) => "write-failed".into(),
                    },
                    None => "bad-op no-raw".into(),
                }
            }
            // rawwait c hs|eof|msg : wait for the peer's greeting+READY / end of stream / one message
            "rawwait" => {
                let c = num(1).unwrap();
                let what = w[2].to_string();
                let rc = match self.raws.get_mut(&c) {
                    Some(rc) => rc,
                    None => return "bad-op no-raw".into(),
                };
                self.rt.block_on(async {
                    match what.as_str() {
                        "hs" => {
                            let ok = Net::read_until(rc, pos_deadline(), |c| c.inbuf.len() > 66 && c.inbuf.len() >= 66 + c.inbuf[65] as usize).await;
                            if ok {
                                let n = 66 + rc.inbuf[65] as usize;
                                rc.inbuf.drain(..n);
                                "hs-ok".to_string()
                            } else if rc.eof {
                                "eof".to_string()
                            } else {
                                "none".to_string()
                            }
                        }
                        // the same wait, but the bytes themselves are the answer: the library's greeting and READY as
                        // this peer received them, on a connection it ACCEPTED or one it made with connect()
                        "hsdump" => {
                            let ok = Net::read_until(rc, pos_deadline(), |c| c.inbuf.len() > 66 && c.inbuf.len() >= 66 + c.inbuf[65] as usize).await;
                            if ok {
                                let n = 66 + rc.inbuf[65] as usize;
                                let b: Vec<u8> = rc.inbuf.drain(..n).collect();
                                format!("hs {}", b.iter().map(|x| format!("{:02x}", x)).collect::<String>())
                            } else if rc.eof {
                                "eof".to_string()
                            } else {
                                "none".to_string()
                            }
                        }
                        // the library's own greeting (sent as soon as its handshake task for this
                        // connection runs): the barrier "this connection HAS been accepted"
                        "greeting" => {
                            let ok = Net::read_until(rc, pos_deadline(), |c| c.inbuf.len() >= 64).await;
                            if ok {
                                "greeting-ok".to_string()
                            } else if rc.eof {
                                "eof".to_string()
                            } else {
                                "none".to_string()
                            }
                        }
                        // end-of-stream must arrive before more than <cap> bytes have been read from now on
                        "eofcap" => {
                            let cap: usize = w.get(3).and_then(|s| s.parse().ok()).unwrap_or(1 << 20);
                            let end = tokio::time::Instant::now() + pos_deadline() * 4;
                            let mut got = 0usize;
                            let mut buf = vec![0u8; 1 << 16];
                            loop {
                                if rc.eof {
                                    break "eof".to_string();
                                }
                                if got > cap {
                                    break format!("flood >{}", cap);
                                }
                                match tokio::time::timeout_at(end, rc.io.read(&mut buf)).await {
                                    Err(_) => {
                                        note_expired();
                                        break "open".to_string();
                                    }
                                    Ok(Ok(0)) | Ok(Err(_)) => rc.eof = true,
                                    Ok(Ok(n)) => got += n,
                                }
                            }
                        }
                        "eof" => {
                            let _ = Net::read_until(rc, pos_deadline(), |c| c.eof).await;
                            if rc.eof {
                                "eof".to_string()
                            } else {
                                "open".to_string()
                            }
                        }
                        // negative form: the connection must stay open (short deadline)
                        "open" => {
                            let _ = Net::read_until(rc, NEG_DEADLINE, |c| c.eof).await;
                            if rc.eof {
                                "eof".to_string()
                            } else {
                                "open".to_string()
                            }
                        }
                        "msg" => {
                            let end = tokio::time::Instant::now() + pos_deadline();
                            loop {
                                if let Some(m) = take_msg(&mut rc.inbuf) {
                                    return format!("M[{}]", show_msg(&m));
                                }
                                if rc.eof {
                                    return "eof".to_string();
                                }
                                let mut buf = [0u8; 4096];
                                match tokio::time::timeout_at(end, rc.io.read(&mut buf)).await {
                                    Err(_) => return "none".to_string(),
                                    Ok(Ok(0)) | Ok(Err(_)) => rc.eof = true,
                                    Ok(Ok(n)) => rc.inbuf.extend_from_slice(&buf[..n]),
                                }
                            }
                        }
                        _ => "bad-op".to_string(),
                    }
                })
            }
            // rawdrain c <n>: the peer reads (and discards) at least n bytes of what the library sends it
            "rawdrain" => {
                let c = num(1).unwrap();
                let want = num(2).unwrap_or(0);
                let rc = match self.raws.get_mut(&c) {
                    Some(rc) => rc,
                    None => return "bad-op no-raw".into(),
                };
                self.rt.block_on(async {
                    let end = tokio::time::Instant::now() + pos_deadline() * 2;
                    let mut got = rc.inbuf.len();
                    rc.inbuf.clear();
                    let mut buf = vec![0u8; 1 << 16];
                    while got < want && !rc.eof {
                        match tokio::time::timeout_at(end, rc.io.read(&mut buf)).await {
                            Err(_) => {
                                note_expired();
                                break;
                            }
                            Ok(Ok(0)) | Ok(Err(_)) => rc.eof = true,
                            Ok(Ok(n)) => got += n,
                        }
                    }
                    if got >= want {
                        "drained".to_string()
                    } else if rc.eof {
                        format!("eof after {}", got)
                    } else {
                        format!("short {}", got)
                    }
                })
            }
            "rawclose" => {
                self.raws.remove(&num(1).unwrap());
                "ok".into()
            }
            "rawmsg" => {
                let c = num(1).unwrap();
                let m = match parse_msg(w[2]) {
                    Ok(m) => m,
                    Err(e) => return format!("bad-op {}", e),
                };
                match self.raws.get_mut(&c) {
                    Some(rc) => match self.rt.block_on(rc.io.write_all(&encode_msg(&m))) {
                        Ok(()) => "ok".into(),
                        Err(_) => "write-failed".into(),
                    },
                    None => "bad-op no-raw".into(),
                }
            }
            // recvslow <s> <ms>: `recv` is polled ONCE with a waker whose wake() takes <ms> milliseconds (a slow
            // executor hook), then the future is dropped. Whoever wakes that waker later — a handshake task
            // registering a peer, the I/O driver announcing data — does so while holding the queue's lock: for
            // <ms> milliseconds another thread owns that lock
            "recvslow" => {
                use std::future::Future;
                struct Slow(u64);
                impl futures::task::ArcWake for Slow {
                    fn wake_by_ref(a: &std::sync::Arc<Self>) {
                        std::thread::sleep(Duration::from_millis(a.0));
                    }
                }
                let s = num(1).unwrap();
                let ms = num(2).unwrap_or(500) as u64;
                let _g = self.rt.enter();
                let sock = match self.socks.get_mut(&s) {
                    Some(x) => x,
                    None => return "bad-op no-sock".into(),
                };
                let wk = futures::task::waker(std::sync::Arc::new(Slow(ms)));
                let mut cx = std::task::Context::from_waker(&wk);
                let mut fut = match sock {
                    Sock::Sub(x) => x.recv(),
                    Sock::Rep(x) => x.recv(),
                    Sock::Dealer(x) => x.recv(),
                    Sock::Router(x) => x.recv(),
                    Sock::Pull(x) => x.recv(),
                    Sock::XPub(x) => x.recv(),
                    _ => return "bad-op no-recv".into(),
                };
                let r = match fut.as_mut().poll(&mut cx) {
                    std::task::Poll::Pending => "pending".to_string(),
                    std::task::Poll::Ready(Ok(_)) => "ready ok".to_string(),
                    std::task::Poll::Ready(Err(e)) => format!("ready err {}", err_class(&format!("{:?}", e))),
                };
                drop(fut);
                r
            }
            // fdhoard: open /dev/null until the process has no file descriptor left (EMFILE); fdrelease <n|all>: give
            // some back. Between `fdhoard; fdrelease 1; rawconn ..` and `fdrelease all` the library's accept() fails
            // with EMFILE (the one free descriptor went to the raw client)
            "fdhoard" => {
                loop {
                    match std::fs::File::open("/dev/null") {
                        Ok(f) => self.hoard.push(f),
                        Err(_) => break,
                    }
                    if self.hoard.len() > 2_000_000 {
                        break;
                    }
                }
                "ok".into()
            }
            "fdrelease" => {
                let n = if w.get(1) == Some(&"all") { self.hoard.len() } else { num(1).unwrap_or(1).min(self.hoard.len()) };
                for _ in 0..n {
                    self.hoard.pop();
                }
                "ok".into()
            }
            // subbig <s> <count> <size>: a SUB socket subscribes to <count> distinct topics of <size> bytes
            "subbig" => {
                let s = num(1).unwrap();
                let (count, size) = (num(2).unwrap_or(1), num(3).unwrap_or(1));
                let mut sock = match self.socks.remove(&s) {
                    Some(x) => x,
                    None => return "bad-op no-sock".into(),
                };
                let r = self.rt.block_on(async {
                    for i in 0..count {
                        let mut topic = vec![0x41u8 + (i % 26) as u8; size];
                        topic.extend_from_slice(format!("-{}", i).as_bytes());
                        let topic = String::from_utf8(topic).unwrap();
                        let res = match &mut sock {
                            Sock::Sub(x) => match tokio::time::timeout(pos_deadline() * 2, x.subscribe(&topic)).await {
                                Ok(r) => r,
                                Err(_) => {
                                    note_expired();
                                    return "none".to_string();
                                }
                            },
                            _ => Err(ZmqError::Other("not a SUB socket")),
                        };
                        if let Err(e) = res {
                            return format!("err {}", err_class(&format!("{:?}", e)));
                        }
                    }
                    "ok".to_string()
                });
                self.socks.insert(s, sock);
                r
            }
            // pause <ms>
            "pause" => {
                std::thread::sleep(Duration::from_millis(num(1).unwrap_or(50) as u64));
                "ok".into()
            }
            "recv" => {
                let s = num(1).unwrap();
                let mut sock = match self.socks.remove(&s) {
                    Some(x) => x,
                    None => return "bad-op no-sock".into(),
                };
                let r = self.rt.block_on(async {
                    let f = async {
                        match &mut sock {
                            Sock::Sub(x) => x.recv().await,
                            Sock::Req(x) => x.recv().await,
                            Sock::Rep(x) => x.recv().await,
                            Sock::Dealer(x) => x.recv().await,
                            Sock::Router(x) => x.recv().await,
                            Sock::Pull(x) => x.recv().await,
                            Sock::XPub(x) => x.recv().await,
                            _ => Err(ZmqError::Other("no recv")),
                        }
                    };
                    match tokio::time::timeout(pos_deadline(), f).await {
                        Err(_) => {
                            note_expired();
                            "none".to_string()
                        }
                        Ok(Ok(m)) => {
                            let fr: Vec<Vec<u8>> = m.iter().map(|b| b.to_vec()).collect();
                            // drop a 16-byte routing identity in front (ROUTER): random
                            format!("ok M[{}]", show_msg(&fr))
                        }
                        Ok(Err(e)) => format!("err {}", err_class(&format!("{:?}", e))),
                    }
                });
                self.socks.insert(s, sock);
                r
            }
            "send" => {
                let s = num(1).unwrap();
                let frames = match parse_msg(w[2]) {
                    Ok(m) => m,
                    Err(e) => return format!("bad-op {}", e),
                };
                let m = ZmqMessage::try_from(frames.into_iter().map(bytes::Bytes::from).collect::<Vec<_>>()).unwrap();
                let mut sock = match self.socks.remove(&s) {
                    Some(x) => x,
                    None => return "bad-op no-sock".into(),
                };
                let r = self.rt.block_on(async {
                    let f = async {
                        match &mut sock {
                            Sock::Pub(x) => x.send(m).await,
                            Sock::Req(x) => x.send(m).await,
                            Sock::Rep(x) => x.send(m).await,
                            Sock::Dealer(x) => x.send(m).await,
                            Sock::Router(x) => x.send(m).await,
                            Sock::Push(x) => x.send(m).await,
                            Sock::XPub(x) => x.send(m).await,
                            _ => Err(ZmqError::Other("no send")),
                        }
                    };
                    match tokio::time::timeout(pos_deadline(), f).await {
                        Err(_) => {
                            note_expired();
                            "none".to_string()
                        }
                        Ok(Ok(())) => "ok".to_string(),
                        Ok(Err(e)) => format!("err {}", err_class(&format!("{:?}", e))),
                    }
                });
                self.socks.insert(s, sock);
                r
            }
            "close" => {
                let s = num(1).unwrap();
                let sock = match self.socks.remove(&s) {
                    Some(x) => x,
                    None => return "bad-op no-sock".into(),
                };
                let n = self.rt.block_on(async {
                    match sock {
                        Sock::Pub(x) => x.close().await.len(),
                        Sock::Sub(x) => x.close().await.len(),
                        Sock::Req(x) => x.close().await.len(),
                        Sock::Rep(x) => x.close().await.len(),
                        Sock::Dealer(x) => x.close().await.len(),
                        Sock::Router(x) => x.close().await.len(),
                        Sock::Pull(x) => x.close().await.len(),
                        Sock::Push(x) => x.close().await.len(),
                        Sock::XPub(x) => x.close().await.len(),
                    }
                });
                format!("ok errs={}", n)
            }
            // reserve c: a loopback TCP port that is bound but NOT listening — connecting to it is refused, nobody else can
            // take it, and `latelisten c` turns it into a listener later
            "reserve" => {
                let _g = self.rt.enter();
                let sock = match tokio::net::TcpSocket::new_v4() {
                    Ok(s) => s,
                    Err(_) => return "bad-op socket".into(),
                };
                if sock.bind("127.0.0.1:0".parse().unwrap()).is_err() {
                    return "bad-op bind".into();
                }
                let addr = sock.local_addr().unwrap();
                self.reserved.insert(num(1).unwrap(), (sock, addr));
                "ok".into()
            }
            // connectnl s c <ms>: connect() to the reserved (non-listening) endpoint c; the call is given <ms> and then
            // ABANDONED (its future dropped) if it has not returned
            "connectnl" => {
                let s = num(1).unwrap();
                let addr = match self.reserved.get(&num(2).unwrap()) {
                    Some((_, a)) => *a,
                    None => return "bad-op no-reserved".into(),
                };
                let ms = num(3).unwrap_or(800) as u64;
                let target = format!("tcp://{}", addr);
                let mut sock = match self.socks.remove(&s) {
                    Some(x) => x,
                    None => return "bad-op no-sock".into(),
                };
                let r = self.rt.block_on(async {
                    let f = async {
                        match &mut sock {
                            Sock::Pub(x) => x.connect(&target).await,
                            Sock::Sub(x) => x.connect(&target).await,
                            Sock::Req(x) => x.connect(&target).await,
                            Sock::Rep(x) => x.connect(&target).await,
                            Sock::Dealer(x) => x.connect(&target).await,
                            Sock::Router(x) => x.connect(&target).await,
                            Sock::Pull(x) => x.connect(&target).await,
                            Sock::Push(x) => x.connect(&target).await,
                            Sock::XPub(x) => x.connect(&target).await,
                        }
                    };
                    match tokio::time::timeout(Duration::from_millis(ms), f).await {
                        Err(_) => "pending".to_string(),
                        Ok(Ok(())) => "ok".to_string(),
                        Ok(Err(e)) => format!("err {}", err_class(&format!("{:?}", e))),
                    }
                });
                self.socks.insert(s, sock);
                r
            }
            // latelisten c <ms>: the reserved endpoint starts LISTENING now; does anything dial it within <ms>?
            "latelisten" => {
                let (sock, _) = match self.reserved.remove(&num(1).unwrap()) {
                    Some(x) => x,
                    None => return "bad-op no-reserved".into(),
                };
                let ms = num(2).unwrap_or(6500) as u64;
                let _g = self.rt.enter();
                let lst = match sock.listen(16) {
                    Ok(l) => l,
                    Err(_) => return "bad-op listen".into(),
                };
                drop(_g);
                self.rt.block_on(async {
                    match tokio::time::timeout(Duration::from_millis(ms), lst.accept()).await {
                        Err(_) => "nobody".to_string(),
                        Ok(Ok(_)) => "dialled".to_string(),
                        Ok(Err(_)) => "accept-error".to_string(),
                    }
                })
            }
            "dropsock" => {
                let _g = self.rt.enter();
                match self.socks.remove(&num(1).unwrap()) {
                    Some(x) => {
                        drop(x);
                        "ok".into()
                    }
                    None => "bad-op no-sock".into(),
                }
            }
            "monitor" => {
                let s = num(1).unwrap();
                let rx = match self.socks.get_mut(&s) {
                    Some(Sock::Pub(x)) => x.monitor(),
                    Some(Sock::Sub(x)) => x.monitor(),
                    Some(Sock::Req(x)) => x.monitor(),
                    Some(Sock::Rep(x)) => x.monitor(),
                    Some(Sock::Dealer(x)) => x.monitor(),
                    Some(Sock::Router(x)) => x.monitor(),
                    Some(Sock::Pull(x)) => x.monitor(),
                    Some(Sock::Push(x)) => x.monitor(),
                    Some(Sock::XPub(x)) => x.monitor(),
                    None => return "bad-op no-sock".into(),
                };
                self.monitors.insert(s, rx);
                "ok".into()
            }
            // monitordrop s: the application drops the receiver it got from monitor() (the task that read the events ended)
            "monitordrop" => match self.monitors.remove(&num(1).unwrap()) {
                Some(_) => "ok".into(),
                None => "bad-op no-monitor".into(),
            },
            // events s <n>: wait until at least n events have arrived (deadline), print their classes sorted
            "events" => {
                use futures::StreamExt;
                let s = num(1).unwrap();
                let want = num(2).unwrap_or(0);
                let rx = match self.monitors.get_mut(&s) {
                    Some(r) => r,
                    None => return "bad-op no-monitor".into(),
                };
                let mut got: Vec<String> = vec![];
                self.rt.block_on(async {
                    let end = tokio::time::Instant::now() + if want > 0 { pos_deadline() } else { NEG_DEADLINE };
                    loop {
                        match tokio::time::timeout_at(end, rx.next()).await {
                            Ok(Some(ev)) => {
                                let d = format!("{:?}", ev);
                                got.push(d.split(|c: char| !c.is_alphanumeric()).next().unwrap_or("").to_string());
                                if want > 0 && got.len() >= want {
                                    // a short grace period for surplus events
                                    let g = tokio::time::Instant::now() + Duration::from_millis(60);
                                    while let Ok(Some(ev)) = tokio::time::timeout_at(g, rx.next()).await {
                                        let d = format!("{:?}", ev);
                                        got.push(d.split(|c: char| !c.is_alphanumeric()).next().unwrap_or("").to_string());
                                    }
                                    break;
                                }
                            }
                            Ok(None) => break,
                            Err(_) => {
                                if want > 0 {
                                    note_expired();
                                }
                                break;
                            }
                        }
                    }
                });
                // `Disconnected` depends on when a socket happens to look at a departed probe: not compared
                got.retain(|e| e != "Disconnected");
                got.sort();
                format!("events {}", got.join(","))
            }
            "socktype" => self.sock_type(num(1).unwrap()).to_string(),
            "peertype" => peer_type_for(w[1]).to_string(),
            _ => "bad-op".into(),
        }
    }
}

impl Drop for Net {
    fn drop(&mut self) {
        let _ = std::fs::remove_dir_all(&self.dir);
    }
}
