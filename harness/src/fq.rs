//! engine `fq`: the real `FairQueue` (through `__verif::FairQueueProbe`) over scripted streams.
//!
//! A scripted stream behaves like a kernel socket: `Pending` stores exactly one waker (replacing
//! the previous one); a readiness change (`arrive`, `close`) takes and fires it.  A stream can carry
//! *window actions*, executed inside its own `poll_next` — i.e. exactly in the window where the
//! fair queue has released its lock to poll one stream — before (`pre`) or after (`post`) the
//! stream looks at its own queue.
use futures::task::{waker, ArcWake};
use futures::Stream;
use std::collections::{HashMap, VecDeque};
use std::pin::Pin;
use std::sync::{Arc, Mutex};
use std::task::{Context, Poll, Waker};
use zeromq::__verif::{FairQueueHandle, FairQueueProbe};

#[derive(Clone, Debug)]
enum EnvOp {
    Insert(u32),
    Remove(u32),
    Arrive(u32, u32),
    Close(u32),
    /// the executor's cooperative budget runs out: until the current (or next) top-level poll
    /// returns, every stream poll wakes its own waker and returns `Pending` (tokio's coop budget)
    Exhaust,
}

/// a `poll_next` call that polls its streams more often than this is spinning
const SPIN_LIMIT: usize = 20_000;

#[derive(Default)]
struct Peer {
    q: VecDeque<u32>,
    closed: bool,
    waker: Option<Waker>,
    pre: Vec<EnvOp>,
    post: Vec<EnvOp>,
}

#[derive(Default)]
struct World {
    peers: HashMap<u32, Peer>,
    exhausted: bool,
    /// stream polls since the current top-level poll started
    polls: usize,
    livelock: bool,
}

type Shared = Arc<Mutex<World>>;

pub struct ScriptStream {
    k: u32,
    world: Shared,
    handle: FairQueueHandle<ScriptStream, u32>,
}

impl Drop for ScriptStream {
    fn drop(&mut self) {
        // a dropped stream drops the waker it had stored
        if let Ok(mut w) = self.world.lock() {
            if let Some(p) = w.peers.get_mut(&self.k) {
                p.waker = None;
            }
        }
    }
}

fn apply(world: &Shared, handle: &FairQueueHandle<ScriptStream, u32>, op: &EnvOp) {
    match op {
        EnvOp::Insert(k) => {
            world.lock().unwrap().peers.entry(*k).or_default();
            handle.insert(*k, ScriptStream { k: *k, world: world.clone(), handle: handle.clone() });
        }
        EnvOp::Remove(k) => handle.remove(k),
        EnvOp::Arrive(k, item) => {
            let w = {
                let mut w = world.lock().unwrap();
                let p = w.peers.entry(*k).or_default();
                if p.closed {
                    None
                } else {
                    p.q.push_back(*item);
                    p.waker.take()
                }
            };
            if let Some(w) = w {
                w.wake();
            }
        }
        EnvOp::Exhaust => world.lock().unwrap().exhausted = true,
        EnvOp::Close(k) => {
            let w = {
                let mut w = world.lock().unwrap();
                let p = w.peers.entry(*k).or_default();
                if p.closed {
                    None
                } else {
                    p.closed = true;
                    p.waker.take()
                }
            };
            if let Some(w) = w {
                w.wake();
            }
        }
    }
}

impl Stream for ScriptStream {
    type Item = u32;
    fn poll_next(self: Pin<&mut Self>, cx: &mut Context<'_>) -> Poll<Option<u32>> {
        let me = self.get_mut();
        let pre: Vec<EnvOp> = {
            let mut w = me.world.lock().unwrap();
            std::mem::take(&mut w.peers.entry(me.k).or_default().pre)
        };
        for op in &pre {
            apply(&me.world, &me.handle, op);
        }
        let res = {
            let mut w = me.world.lock().unwrap();
            w.polls += 1;
            if w.polls > SPIN_LIMIT {
                w.livelock = true;
                drop(w);
                panic!("poll_next is spinning");
            }
            let exhausted = w.exhausted;
            let p = w.peers.entry(me.k).or_default();
            if exhausted {
                // budget exhausted: wake ourselves, yield nothing (what `tokio::task::coop` makes
                // every tokio resource do)
                drop(w);
                cx.waker().wake_by_ref();
                Poll::Pending
            } else if let Some(i) = p.q.pop_front() {
                Poll::Ready(Some(i))
            } else if p.closed {
                Poll::Ready(None)
            } else {
                p.waker = Some(cx.waker().clone());
                Poll::Pending
            }
        };
        let post: Vec<EnvOp> = {
            let mut w = me.world.lock().unwrap();
            std::mem::take(&mut w.peers.entry(me.k).or_default().post)
        };
        for op in &post {
            apply(&me.world, &me.handle, op);
        }
        res
    }
}

/// one receiver waker per task context the application polls from; every wake-up is logged
struct Cnt {
    id: u32,
    log: Arc<Mutex<Vec<u32>>>,
}
impl ArcWake for Cnt {
    fn wake_by_ref(a: &Arc<Self>) {
        a.log.lock().unwrap().push(a.id);
    }
}

pub struct FqEngine {
    world: Shared,
    probe: FairQueueProbe<ScriptStream, u32>,
    handle: FairQueueHandle<ScriptStream, u32>,
    /// which receiver waker was woken, in order
    log: Arc<Mutex<Vec<u32>>>,
    /// the waker later polls are made with
    cur: u32,
}

fn parse_env(words: &[&str]) -> Option<EnvOp> {
    let n = |i: usize| words.get(i).and_then(|s| s.parse::<u32>().ok());
    match words.first().copied() {
        Some("insert") => Some(EnvOp::Insert(n(1)?)),
        Some("remove") => Some(EnvOp::Remove(n(1)?)),
        Some("arrive") => Some(EnvOp::Arrive(n(1)?, n(2)?)),
        Some("close") => Some(EnvOp::Close(n(1)?)),
        Some("exhaust") => Some(EnvOp::Exhaust),
        _ => None,
    }
}

impl FqEngine {
    pub fn new() -> Self {
        let probe = FairQueueProbe::new(true);
        let handle = probe.handle();
        FqEngine { world: Arc::new(Mutex::new(World::default())), probe, handle, log: Arc::new(Mutex::new(Vec::new())), cur: 0 }
    }

    /// `w=<waker woken last> wakes=<number of wake-ups so far>`
    fn wk(&self) -> String {
        let l = self.log.lock().unwrap();
        match l.last() {
            Some(w) => format!("w={} wakes={}", w, l.len()),
            None => format!("w=- wakes={}", l.len()),
        }
    }

    pub fn op(&mut self, words: &[&str]) -> String {
        match words[0] {
            "case" => {
                *self = FqEngine::new();
                format!("case {}", words.get(1).unwrap_or(&""))
            }
            "insert" | "remove" | "arrive" | "close" | "exhaust" => match parse_env(words) {
                Some(op) => {
                    apply(&self.world, &self.handle, &op);
                    format!("ok {}", self.wk())
                }
                None => "bad-op".into(),
            },
            "setwaker" => match words.get(1).and_then(|s| s.parse().ok()) {
                Some(w) => {
                    self.cur = w;
                    format!("ok {}", self.wk())
                }
                None => "bad-op".into(),
            },
            "window" => {
                let k: u32 = match words.get(1).and_then(|s| s.parse().ok()) {
                    Some(k) => k,
                    None => return "bad-op".into(),
                };
                let op = match parse_env(&words[3..]) {
                    Some(op) => op,
                    None => return "bad-op".into(),
                };
                let mut w = self.world.lock().unwrap();
                let p = w.peers.entry(k).or_default();
                match words[2] {
                    "pre" => p.pre.push(op),
                    "post" => p.post.push(op),
                    _ => return "bad-op".into(),
                }
                "ok".into()
            }
            "poll" => {
                let w = waker(Arc::new(Cnt { id: self.cur, log: self.log.clone() }));
                let mut cx = Context::from_waker(&w);
                self.world.lock().unwrap().polls = 0;
                let r = std::panic::catch_unwind(std::panic::AssertUnwindSafe(|| self.probe.poll_next(&mut cx)));
                let wk = self.wk();
                let livelock = {
                    let mut w = self.world.lock().unwrap();
                    // the call has returned: the executor runs and the budget is refreshed
                    w.exhausted = false;
                    std::mem::take(&mut w.livelock)
                };
                if livelock {
                    return format!("LIVELOCK stream-polls>{}", SPIN_LIMIT);
                }
                match r {
                    Ok(Poll::Pending) => format!("pending {}", wk),
                    Ok(Poll::Ready(Some((k, i)))) => format!("ready {} {} {}", k, i, wk),
                    Ok(Poll::Ready(None)) => format!("ready none {}", wk),
                    Err(_) => "PANIC".into(),
                }
            }
            _ => "bad-op".into(),
        }
    }
}
