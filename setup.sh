#!/bin/sh
# MANIFEST.setup_cmd: build the framework from files on disk only (offline).
set -e
cd "$(dirname "$0")"
export CARGO_NET_OFFLINE=true
(cd harness && cargo build --offline 2>&1 | tail -3)
mkdir -p .work evidence replays
if [ -x harness/target/debug/zmqharness ]; then
  harness/target/debug/zmqharness tables > .work/Tables.lean.new 2>/dev/null && \
    { cmp -s .work/Tables.lean.new lean/ZmqVerif/Gen/Tables.lean || cp .work/Tables.lean.new lean/ZmqVerif/Gen/Tables.lean; }
fi
(cd lean && lake build ZmqVerif zmqmodel 2>&1 | tail -3)
echo setup done
