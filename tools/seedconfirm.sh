#!/bin/bash
# tools/seedconfirm.sh <worktree> <seed-name> <demo-test-name>
# Confirms a seeded change in its scratch worktree (suite green with it, demo fails with it and
# passes without it), stores it under /verif/seeded/<seed-name>/ and prints what was observed.
set -u
WT=$1; NAME=$2; DEMO=$3
cd "$WT" || exit 2
export CARGO_NET_OFFLINE=true
git diff -- src > /tmp/$NAME.patch
[ -s /tmp/$NAME.patch ] || { echo "no change applied in $WT"; exit 2; }
echo "== with the change: existing suite (demo excluded)"
mv tests/$DEMO.rs /tmp/$DEMO.rs.hold
cargo test --offline --no-fail-fast 2>&1 | grep -E "^test result|FAILED|failed" | sort | uniq -c
cargo build --offline --features verif-hooks 2>&1 | tail -1
mv /tmp/$DEMO.rs.hold tests/$DEMO.rs
echo "== with the change: demo"
cargo test --offline --features verif-hooks --test $DEMO 2>&1 | grep -E "^test |^test result" | head -12
echo "== without the change: demo"
git checkout -- src
cargo test --offline --features verif-hooks --test $DEMO 2>&1 | grep -E "^test |^test result" | head -12
git apply /tmp/$NAME.patch
mkdir -p /verif/seeded/$NAME
cp /tmp/$NAME.patch /verif/seeded/$NAME/patch.diff
cp tests/$DEMO.rs /verif/seeded/$NAME/demo.rs
cp seed/meta.json /verif/seeded/$NAME/agent_meta.json 2>/dev/null
echo "stored in /verif/seeded/$NAME"
