#!/usr/bin/env python3
"""model-vs-implementation fuzzing of the world engine (development aid; not a registered check)"""
import random, sys, os
sys.path.insert(0, os.path.dirname(os.path.dirname(os.path.abspath(__file__))))
from vlib import core, worldgen

seed = int(sys.argv[1]) if len(sys.argv) > 1 else 1
n = int(sys.argv[2]) if len(sys.argv) > 2 else 300
types = sys.argv[3].split(",") if len(sys.argv) > 3 else None
rng = random.Random(seed)
cases = [worldgen.random_case(rng, f"r#{i}", types) for i in range(n)]
impl = core.run_impl("world", cases, timeout=60)
model = core.run_model("world", cases)
bad = 0
for c, il, ml in zip(cases, impl, model):
    d = core.first_diff(ml, il)
    if d is not None:
        bad += 1
        if bad <= int(os.environ.get("SHOW", "2")):
            def fails(x):
                i2 = core.run_impl("world", [x], timeout=10)[0]; m2 = core.run_model("world", [x])[0]
                return core.first_diff(m2, i2) is not None
            small = core.shrink(c, fails, budget=150)
            i2 = core.run_impl("world", [small], timeout=10)[0]; m2 = core.run_model("world", [small])[0]
            print("=== ", c.name)
            for op, m, r in zip(["case"] + small.ops, m2, i2):
                flag = "  " if core.line_matches(m, r) else "!!"
                print(f"{flag} {op[:110]}\n       model: {m[:150]}\n       impl : {r[:150]}" if flag == "!!" else f"   {op[:100]}  ->  {r[:100]}")
print("cases", len(cases), "disagree", bad)
