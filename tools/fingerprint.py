#!/usr/bin/env python3
"""tools/fingerprint.py — record the fingerprint of /repo's current working tree as the baseline the checks were validated on
(run after every commit to /repo).  The checks use it only to choose their depth (see vlib/core.py tree_changed)."""
import json, os, subprocess, sys
sys.path.insert(0, os.path.join(os.path.dirname(os.path.abspath(__file__)), ".."))
from vlib import core
head = subprocess.run(["git", "-C", core.REPO, "rev-parse", "HEAD"], capture_output=True, text=True).stdout.strip()
dirty = subprocess.run(["git", "-C", core.REPO, "status", "--porcelain", "--", "src", "Cargo.toml"], capture_output=True, text=True).stdout.strip()
if dirty:
    print("refusing: /repo has uncommitted changes:\n" + dirty); sys.exit(1)
json.dump({"sha256": core.tree_fingerprint(), "repo_head": head}, open(os.path.join(core.ROOT, "baseline_fingerprint.json"), "w"), indent=1)
print("baseline fingerprint recorded for", head)
