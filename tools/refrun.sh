#!/bin/bash
# tools/refrun.sh <patch-file> <label> [check ids...]  — apply a (supposedly behaviour-preserving) change to /repo, run the quick
# checks, undo it.  Prints one line per check; any rc!=0 is an alarm on a tree where the properties hold.
PATCH=$1; LABEL=$2; shift 2
IDS=${@:-C01 C02 C03 C04 C05 C06 C07 C08 C09 C10 C11 C12 C13 C14 C15 C16 C17 C18 C19 C20}
cd /repo && git status --short | grep -q . && { echo "/repo not clean"; exit 2; }
git -C /repo apply $PATCH || exit 2
cd /verif
for id in $IDS; do
  out=$(./check $id quick 2>&1); rc=$?
  echo "$LABEL $id rc=$rc :: $(echo "$out" | grep -A1 '^VIOLATION' | head -2 | tr '\n' ' ' | cut -c1-330)"
done
git -C /repo checkout -- .
