#!/usr/bin/env python3
"""Regenerate MANIFEST.json from the table below (keeps the file valid and the not_applicable list current)."""
import json
import os
import subprocess

ROOT = os.path.dirname(os.path.dirname(os.path.abspath(__file__)))
props = [json.loads(l) for l in open(os.path.join(ROOT, "properties.jsonl"))]

LEAN_NOTE = "trusted: Lean 4.33 kernel (axioms at most propext, Classical.choice, Quot.sound; audited per theorem by #print axioms), the correspondence harness and model driver; "

CLAIMS = {
    "C01": dict(
        engine="codec",
        text="Lean 4 theorems over the executable codec model, for ALL messages (any frame count/length < 2^64): the bytes written parse under an independent strict RFC-23 grammar to exactly the frames sent, the library decoder returns the identical message, greeting/READY well-formed. Tie: the model's encode/decode and the real ZmqCodec are run on the same messages (exhaustive length grids x 1..3 frames, seeded messages, READY for 9 types x 6 identities) and must agree byte for byte; greeting and READY tables are regenerated from the code each run and proved equal to the model by decide. SOCKET level: each of the 9 socket types with configured identities of 0..255 bytes accepts a raw peer over a scripted pipe; the greeting + READY written by the real handshake are parsed by a python RFC-23 reference (Socket-Type = the type, Identity iff configured). Family socket-pressure: sends under partial write credit, sends abandoned after a partial write and followed by another, publishes to a subscriber that stalls between messages — everything the socket wrote after the handshake must parse (python RFC-23 reference) into messages that were sent, in order.",
        note=LEAN_NOTE + "BytesMut put/extend modelled as list append; bodies > 48 bytes compared by length + FNV-64",
        technique="Lean 4 proof (round-trip law against an independent RFC-23 grammar) + differential correspondence + regenerated tables",
    ),
    "C02": dict(
        engine="codec",
        text="Lean 4 theorem `feedAll chunks = feed chunks.flatten` for every decoder state, every byte stream (valid or not) and EVERY partition into reads (run_append by well-founded induction), plus prefix-monotonicity (nothing surfaces early / twice) and whole-message delivery. Tie: real ZmqCodec fed chunk by chunk vs the model, exhaustively over all partitions of short streams, all 1- and 2-cuts of a medium stream, byte-at-a-time, random partitions of long streams; the Spec oracle compares the implementation's segmented and one-read runs directly. SOCKET level (world engine): the peer's first message cut at EVERY byte together with the end of its READY, the rest later, for all 8 socket types that read (PUB: the subscription takes effect) — the hand-over of the framed reader from the handshake to the socket. SOCKET LEVEL: two histories of one socket (any interleaving of polls, any segmentation of arriving bytes) in which a connection received the same bytes in total have the same delivered-so-far ++ complete-and-waiting list (C02_world_segmentation). Family socket-yieldy: a cooperative transport (short reads, forced yields in the middle of available data).",
        note=LEAN_NOTE + "asynchronous-codec FramedRead2 modelled as 'decode until None after every read'",
        technique="Lean 4 proof (incremental parser = batch parser) + differential correspondence over all partitions",
    ),
    "C03": dict(
        engine="codec",
        text="Lean 4 theorems over a decoder model that carries the abort conditions of every bytes-crate primitive the code calls: no byte stream in any state reaches a panic site, retained bytes <= received bytes, a declared length stores nothing; SocketType::compatible total over the table regenerated from the code (decide). PARTIAL w.r.t. the runtime: allocator and stack are observed, not modelled — hostile streams (exhaustive alphabet, length-field/truncation mutations, 20 000 MORE frames, junk greetings, random) run against the real decoder on a 256 KiB-stack thread with a counting allocator, crashes isolated by process bisection; and floods of items a socket's recv loop ignores (6 000 / 25 000 commands, bogus subscriptions, non-matching topics in ONE read) through real sockets of all 8 reading types, polled on a 2 MiB-stack thread, followed by a valid message and a healthy peer's message. Peer-state families: state built from a peer's WELL-FORMED bytes (subscriptions of 0..1000 bytes, plain / cancelled / multi-frame / garbage; ROUTER identities of every legal length; REP envelopes of up to 40 frames) and then used by the application's own send/reply must not panic. known-command-odd-body: every command name the ZMTP RFCs know x 13 truncated/odd bodies as short and long frames.",
        note=LEAN_NOTE + "bytes crate panic conditions as modelled in Model/Basic.lean; heap budget 64 x bytes received + 32 KiB",
        technique="Lean 4 proof (explicit panic outcomes, retained-bytes invariant) + hostile-input correspondence with heap/stack observation",
    ),
    "C04": dict(
        engine="world",
        text="Table clauses are PROOFS over tables regenerated from the real code on every run (decide): SocketType::compatible total, symmetric and equal to the RFC 28/29/30/31 relation on all 144 pairs; names and near-misses; mechanism field. Lean 4 theorems on the World model's handshake decision: admit <-> (Socket-Type present, known, RFC-compatible, Identity <= 255); admitted under the announced identity or a fresh one; registered exactly once; a rejected connection changes no socket and drops both halves. Tie: real handshake via attach over scripted pipes on the FULL compatibility plane 9x14, every single-factor deviation, pairwise sample (quick) / whole product ~1.1e5 (thorough); python RFC oracle. Socket-level theorems C04_world_handshake_*: the handshake future carries an invariant against the connection's byte stream; Ok(identity) only if the stream begins with an acceptable greeting and an admissible READY, for every segmentation and number of polls. SOCKET LEVEL, both directions against the connection's byte stream: Ok(identity) ONLY IF an acceptable greeting and an admissible READY head the stream (C04_world_handshake_* invariant, every segmentation and number of polls); and IF they do, on a connection that takes every write, ONE poll completes with Ok(ident) and the connection is in the peer table under ident (C04_world_handshake_completes); the poll that reads READY decides exactly as admitPeer says (C04_world_deciding_poll, _admitted_iff_admissible), the poll that reads the greeting rejects versions below 3.0 and non-greetings (C04_world_greeting_poll_rejects). Families accept-side (the accept side's only report is the monitor the socket has at that moment) and reconnect-abandoned (a second connection under a registered identity becomes a peer).",
        note=LEAN_NOTE + "UUIDv4 uniqueness for fresh identities; RFC table as typed in",
        technique="Lean 4 proof (decide over regenerated tables; iff on the admission decision) + exhaustive handshake-grid correspondence",
    ),
    "C05": dict(
        engine="fq",
        text="Lean 4 invariants over the micro-step model of the fair queue (lock sections A/B/C, insert/remove/arrive/close landing anywhere, incl. inside the unlocked window), proved preserved by every step and hence true after ANY finite schedule with any number of peers: conservation (given = delivered ++ in-flight ++ still queued), per-peer prefix order, no duplicates, at most one stream checked out. Tie: the real FairQueue over scripted streams replays the SAME schedule as the model and must give the same result for every poll (exhaustive op sequences for 2/3 peers, every single window-action placement, seeded random); Spec oracle on the implementation's trace (prefix, no-dup, completeness after drain). Socket level: seeded random schedules of real PULL/SUB/DEALER/ROUTER/REP/XPUB sockets predicted line by line by the World model, and `streams` cases judged by the Spec itself (per peer, delivered = complete messages put on the wire; empty frames anywhere; clean and mid-message EOF). The budget op `exhaust` and the waker op `setwaker` (see C06) are part of the schedules. SOCKET-LEVEL THEOREMS (Lemmas/WorldRecv, WorldHist): one poll of the World model's framed reader / fair queue / recv loop is related to the connections' BYTE STREAMS (C02's run): the item handed out is the first item of exactly one connection's remaining stream, no other connection is touched, at most one message per poll and exactly one iff recv returns it (or REP rejects it); and for EVERY history of polls and arriving bytes the complete messages of a connection's whole byte stream are exactly the messages consumed from it, in order, followed by those still waiting (C05_world_exactly_once / _gone_prefix). Family reconnect-parked: a peer connects again under a still-registered identity while a recv is parked. Over every history also: what recv hands over for each consumed message (C05_world_verbatim; C07_world_rep_recv, C09_world_label, C11_world_xpub_verbatim for the types with an envelope rule), and the composition with the send theorems (C05_world_end_to_end: a connection that received encodeMsg m1 ++ encodeMsg m2 ++ ... delivers exactly m1, m2, ...).",
        note=LEAN_NOTE + "std BinaryHeap/HashMap, parking_lot::Mutex as atomic sections; true parallel data races not modelled; distinct keys",
        technique="Lean 4 proof (invariant by induction over all interleavings; refinement of the socket-level receive path to the connections' byte streams, for all histories) + exact-schedule differential correspondence",
    ),
    "C06": dict(
        engine="fq",
        text="Lean 4 theorems over the same fair-queue model, for all schedules: I1 (parked & un-notified => heap empty & waker published), I2 (available => exactly one event), wake-up on arrive/close/insert, progress (a polled recv returns Ready within 3*|heap| sections whenever something is available), bounded bypass (while i is owed a delivery every other peer is served at most once; potential argument over tickets); every poll_next call RETURNS whatever the executor's cooperative budget does (a variant that decreases with every section; the loop of the pinned tree provably did not — finding D17, a recv() livelock under tokio's coop budget, repaired by a fix: commit); the wake-up goes to the waker of the LATEST call (C06_wake_latest). PARTIAL: the bypass bound assumes the kernel-socket waker discipline; real-time liveness of the reactor is outside the model. Tie: wake counts, WHICH waker was woken, and exact delivery order compared per op with the real FairQueue on exhaustive and seeded schedules incl. budget exhaustion (every stream poll wakes itself and returns Pending; LIVELOCK reported after 20 000 stream polls in one call) and polls made with different wakers; Spec oracle for wake (count and identity), completeness and bypass on the implementation's trace. Socket level: C06_world_reinsert_queued (registering under a key that is still registered always queues an event) and C06_world_progress (an event queued for a connection with a complete item => poll_next over the framed readers does not return Pending); family reconnect-parked on real sockets.",
        note=LEAN_NOTE + "waker discipline hypothesis (one armed waker per stream, consumed on firing) for the bypass bound; OS/tokio timing not modelled",
        technique="Lean 4 proof (invariants I1/I2/one-token, progress by strong induction, bounded bypass by ticket potential) + exact-schedule differential correspondence",
    ),
    "C07": dict(
        engine="world",
        text="Lean 4 theorems on the frame-list functions the World model runs for REQ/REP/ROUTER: REQ adds/removes exactly one empty delimiter, REP splits after the FIRST empty frame (payload with empty frames untouched), env ++ payload = request, payload never empty, and the chain theorem (any routing prefix of non-empty identities, any payloads: request reaches REP unmodified, reply retraces the route and reaches REQ unmodified). Tie: real REQ and REP with scripted raw peers, exhaustive payload shapes x sizes {0,5,256,70000} x envelope prefixes x degenerate requests; every poll result and wire byte predicted by the model; python Spec oracle independent of the model.",
        note=LEAN_NOTE + "VecDeque<Bytes> frame operations as list operations; large frames compared by hash",
        technique="Lean 4 proof (algebraic laws on frame lists, chain composition) + differential correspondence on real sockets over scripted pipes",
    ),
    "C08": dict(
        engine="world",
        text="Lean 4 theorems on the World model's REQ/REP call functions: out-of-turn send/recv return the WHOLE world unchanged with the message handed back; accepted recv only in phase awaiting -> idle, pending recv stays awaiting (refinement to the alternation automaton); a REP reply touches no pipe other than the requester's (frame lemma). Tie: ALL call sequences to length 6 on a real REQ and length 5/6 on a real REP with two clients, seeded schedules with 1..4 clients; wires of every connection read after every call; reference-automaton oracle. Families rep-same-identity (two connections announce one identity: the reply goes to the connection the request came from) and C08_world_req_recv (REQ recv consumes exactly the first item of the awaited peer's byte stream).",
        note=LEAN_NOTE + "scc::HashMap async ops as immediate; one live future per socket",
        technique="Lean 4 proof (refinement to alternation automaton, frame lemma for routing) + exhaustive call-sequence correspondence",
    ),
    "C14": dict(
        engine="world",
        text="Lean 4: in the World model the recv future of every fair-queue socket is stateless (a pending poll leaves exactly the freshly-issued future), REQ keeps the request marker in the socket while its recv is pending, and at fair-queue level abandon+reissue is a spurious poll, covered by the conservation invariant for all schedules. Tie (the substance): real recv futures of all 7 socket types polled k=1..3 times and DROPPED at every byte-arrival position of a two-message stream, repeated, then drained — the model must predict every line; oracle: drained sequence = messages on the wire; REQ refuses the second send and returns the first reply; a later recv that goes Pending first is WOKEN by its own waker when the bytes arrive (every future has its own waker; op `woken`); REP answers an outstanding request behind its envelope after further recvs were abandoned. Socket-level theorem C14_world_any_poll_is_a_history_step: a poll of ANY recv future (fresh, re-polled, successor of an abandoned one) is a step of the histories over which C05_world_exactly_once holds — abandoning recv calls at any suspension point loses, duplicates and reorders nothing. Family req-noise: a command frame arrives before the reply, the recv polled over it is abandoned while Pending — the next send is refused, the reply answers the first request.",
        note=LEAN_NOTE + "futures are dropped between polls only",
        technique="Lean 4 proof (stateless-future lemmas, REQ marker invariant) + exhaustive cancellation-point correspondence",
    ),
    "C09": dict(
        engine="world",
        text="Lean 4 theorems on the World model's ROUTER functions: a send to an identity no connected peer has returns the WHOLE world unchanged with an error; a send to a connected identity touches no pipe but that peer's and appends exactly the encoding of the remaining frames; recv prefixes the fair-queue key (the identity admitted at the handshake, C04) and nothing else. Tie: real ROUTER with 1..4 scripted peers, exhaustive identity assignments x every target choice (each peer, unknown, empty, 256 bytes, a peer that has gone), all interleavings of two peers' messages, seeded 4-peer schedules; wires of every peer after every send; python oracle.",
        note=LEAN_NOTE + "distinct identities of simultaneously connected peers; auto identities compared via placeholders",
        technique="Lean 4 proof (map lookup laws, frame lemma on wires) + differential correspondence",
    ),
    "C10": dict(
        engine="world",
        text="Lean 4: rotation laws on the pop-front/push-back queue (n consecutive sends over n peers hit each exactly once and restore the queue; distinct; permutation), and on the World model's send_round_robin: empty rotation -> world unchanged with the message handed back; a completed send touched only the chosen peer's pipe, left its buffer EMPTY (fully written) and pushed the peer back. Tie: real PUSH/DEALER/REQ with 0..5 scripted peers x join positions x 2n+1 sends, wires of every peer at the instant send returns Ready, partial-write and stall/resume credit scripts with the wire read while Pending; python oracle for one-peer/complete/rotation. Socket-level theorems C10_world_send_*: a send in progress hands the chosen connection the complete encoding exactly once over all its polls; no other write side is touched. WHO is chosen, against the socket's rotation queue: the first entry that is still registered, the queue keeping what followed in order (C10_world_rr_choice), untouched while Pending and the chosen peer appended on completion (C10_world_rr_later_polls); with every entry registered one completed send is one rrNext step with the whole encoding on the HEAD's connection and on no other (C10_world_strict_rotation).",
        note=LEAN_NOTE + "crossbeam SegQueue as FIFO; cancelling a send mid-flush is outside the quantifier",
        technique="Lean 4 proof (rotation invariant, frame lemma, flushed-at-return) + differential correspondence with credit scripts",
    ),
    "C11": dict(
        engine="world",
        text="Lean 4: refinement of the code's subscription LIST to the Spec's MULTISET (abs (onMsg s m) = Spec.onMsg (abs s) m for every message: subscribe, unsubscribe, garbage, empty, multi-frame; lifted to whole histories), the delivery decision stated outright (copy written iff a topic with positive count is a byte-prefix of the first frame), at most one copy, empty subscription matches all, garbage is a no-op. Tie: real PUB (reader tasks drained) and XPUB (subscriptions consumed by recv) with scripted subscribers; ALL histories to length 3/4 over 8 sub/unsub ops + 3 kinds of garbage x 5 published first frames, sampled longer ones, 2..3 subscribers; independent python multiset-prefix oracle; XPUB hands over subscription messages verbatim in per-peer order. Family identity-takeover: a second connection under a registered identity starts with NO subscriptions (exposed finding D18, repaired). Theorem C11_world_pub_reader: PUB's per-subscriber reader task folds onMsg over exactly the messages of a prefix of that connection's byte stream.",
        note=LEAN_NOTE + "PUB's reader tasks observed at quiescent points; tokio current-thread scheduling",
        technique="Lean 4 proof (refinement list -> multiset, decision logic stated outright) + exhaustive short-history correspondence",
    ),
    "C12": dict(
        engine="world",
        text="Lean 4 on the sink model (FramedWrite2 buffer + high-water mark + try_send over a credit pipe): stream continuity (wire ++ buffer grows by the WHOLE encoding iff accepted, by nothing iff dropped — for every pipe state), buffer bound < hwm + one message, no loss with unlimited credit, resume continues where it stopped, BufferFull drops whole, publishing to one subscriber touches no other pipe. PARTIAL: FramedWrite2 is modelled, not verified; try_send cannot wait by construction in the model — that the real send completes in ONE poll is checked on the code. Tie: PUB/XPUB with 1..3 subscribers, exhaustive stall points x sizes around 128 KiB x 1..3 publishes, healthy next to stalled/broken, seeded stall/resume; every wire predicted.",
        note=LEAN_NOTE + "asynchronous-codec 0.7 FramedWrite2 (hwm 131072) modelled; memory observed via the flush after the stall",
        technique="Lean 4 proof (sink invariants) + back-pressure script correspondence",
    ),
    "C13": dict(
        engine="world",
        text="Lean 4: for ALL histories of subscribe/unsubscribe/atomic join, every peer's wire folded with the publisher's semantics (C11) equals the socket's set (invariant by induction); failure isolation (each peer's update is independent); the SPLIT join is modelled too and the full property is proved FALSE on a concrete history (C13_race_witness) with the partial theorem excluding exactly that window — a recorded known finding (D10). Tie: real SUB with scripted publishers, all histories to length 4/5 x join at every position, failing peer first, failing join, the split join reached deterministically by stalling the new pipe; python oracle folds every peer's wire. Back-pressure family: every history of length <= 3 x every call x each of two peers accepting only 0..2 bytes during that call — the call waits, the peer becomes writable, the call completes, and every peer (the slow one included) and a late joiner have been told. Family abandoned-join: a join abandoned while the new peer is being told the subscriptions leaves nothing behind. SOCKET LEVEL: the walk of subscribe/unsubscribe seen from one peer (C13_world_subop_*), every poll of the late joiner's re-announcement stage (C13_world_late_joiner: Pending keeps the books; completion registers the joiner only after one announcement per topic of the snapshot, in order, each whole, each once — or drops it unregistered), and end to end on a connection that takes every write: one poll, registered, greeting + READY + one announcement per subscription on its wire (C13_world_joiner_told_all). Families transient-announce, same-identity-joiner, bad-frame-then-subscribe, abandoned-join.",
        note=LEAN_NOTE + "HashSet/HashMap iteration orders abstracted (compared as multisets / at quiescent points)",
        technique="Lean 4 proof (invariant over histories; negation witness for the join race) + exhaustive history x join-point correspondence",
    ),
    "C15": dict(
        engine="world",
        text="Lean 4: abstract select!-loop model with the choice among ready sides as a free parameter — for EVERY interleaving of arrivals and EVERY choice sequence: sent-on-the-other-side ++ still-queued = everything that arrived, per direction (verbatim, once, in order), capture gets one copy per forwarded message, the losing side's message stays queued; chain clause via C07_chain. SOCKET LEVEL (Model.World's proxy future, the function tied to the real proxy()): a ghost-traced copy of proxyPoll erases to it (C15_world_trace_erases); ONE poll from any state in any world is a word of the forwarding grammar (C15_world_poll_grammar); over EVERY history of polls in arbitrary worlds everything recv returned on one side has been sent on verbatim, once, in order on the OTHER side, except at most the one message being copied to the capture socket, which gets a copy of everything taken (C15_world_verbatim). Tie: the real proxy(ROUTER, DEALER, capture PUSH/PUB/none) future stepped one poll at a time over scripted clients/workers/sink, exhaustive 3-event arrival patterns incl. both sides ready in one poll, 1..2 clients x 1..2 workers x payload shapes, seeded schedules; the World model (proxyPoll) predicts every wire; oracle: forwarded = received per direction, per-source order, capture copies, replies reach the client named in their envelope. Family chain-reconnect: a client connects again under its configured identity while its old connection is still registered (open, or closed but not yet polled) and makes a request — answered on the NEW connection only — also when the old connection ended with a decoder error or a reset, noticed by the proxy or not. Family no-worker: a request taken while the backend has no peer — the proxy may end with the error but must not keep running having dropped it.",
        note=LEAN_NOTE + "futures::select! as a free choice among ready branches; schedules where a send blocks while both sides are ready are not compared",
        technique="Lean 4 proof (invariant for all choice sequences) + one-poll-at-a-time correspondence of the real proxy future",
    ),
    "C16": dict(
        engine="world",
        text="Lean 4 on the World model's peer_disconnected (as coded per backend) and fair-queue poll: forgotten (no table entry a later send consults), isolated (no other peer's entry changes), write half released (every socket type); an orderly EOF observed by the fair-queue poll forgets the peer whatever else that poll goes on to do (C16_eof_forgets) and releases both halves; a failed write in REQ/ROUTER/REP send and an ended/failed reply stream in REQ recv forget the peer. (On the pinned tree the last three were FALSE — proved as negations, recorded as findings D12/D13, then repaired by two fix: commits; every (type, event) pair is now required to hold.) PARTIAL: descriptor release observed via the pipe halves' Drop flags, not modelled. Tie: 9 socket types x every cut position of the victim's stream (each handshake stage, header, 8-byte length, body, between frames, between messages) x {EOF, read error, write error, protocol error} with bystanders; recv error count / no spin, late sends, halves. Family publisher-write-fault: PUB/XPUB with a subscriber whose writes fail (ConnectionReset, BrokenPipe, TimedOut, ConnectionAborted) with and without a backlog at its high-water mark — every later publish returns ok at once and every other subscriber receives every message. Family sub-replay-fault: a write fault exactly at SUB's subscription replay leaves nothing registered.",
        note=LEAN_NOTE + "FramedRead2 EOF handling modelled; OS descriptor release observed not modelled",
        technique="Lean 4 proof (per-event theorems) + fault-position x event correspondence",
    ),
    "C17": dict(
        engine="world",
        text="Lean 4: ownership graph with reference-count semantics (Freed = inductive least fixpoint): with the repaired fair queue, dropping/closing the socket frees every registered connection whatever wakers were armed (dropped_closes) and always frees the accept tasks; the NEGATION for the queue as it was (an armed StreamWaker closes a strong cycle through the transport — reproduced on the real code, repaired by a fix: commit); with both repairs EVERY connection — registered or still in its handshake — is freed (C17_all_closed); the negation for detached handshake tasks (a stalled peer's connection survived close/drop: finding D14, repaired by a fix: commit). World model: Drop/close() empty every table. PARTIAL: OS sockets, tokio scheduling and 'shortly afterwards' are observed, not modelled. Tie: 9 socket types x all 2^5 history prefixes {recv pending, recv delivered, send, peer EOF, pending handshake} x {drop, close()} over scripted pipes whose halves record their own Drop, compared half by half; real listeners (net engine): type x transport x {bound, accepted, traffic, pending handshake, CONNECTED OUT through connect()} x {close, drop}, and close/drop issued while ANOTHER THREAD holds the fair queue's lock (a slow waker woken by a registering handshake task / by arriving data). Net family registration-pending: a SUB socket with a subscription set larger than the transport buffers and a peer that completed the handshake but does not read (state: handshake done, registration pending) — after close()/drop the peer reaches end-of-stream before reading more than can have been in flight; after close() RETURNS the FIRST fresh connection attempt must be refused (single probe, no polling). World family stalled-subscriber (PUB/XPUB go away with output still buffered for a subscriber that is not reading); net family accept-failing (close/drop during a descriptor shortage).",
        note=LEAN_NOTE + "Arc/Drop semantics as modelled by the ownership graph; listeners/OS observed by the net engine where built",
        technique="Lean 4 proof (inductive Freed over the ownership graph; cycle-leak negation) + exhaustive history-prefix correspondence on pipe Drop flags",
    ),
    "C18": dict(
        engine="net",
        text="Lean 4 on the bind-table model (Model/Net.lean; OS outcomes are inputs with their assumptions spelled out): a successful bind returns a NEW endpoint id and adds exactly it, other sockets untouched; a failed bind (address in use, malformed) returns the state unchanged; unbind of a bound endpoint removes exactly it and leaves connections and other sockets untouched; unbind of anything else = NoSuchBind with the state unchanged; a fresh connect is accepted iff the endpoint is in the bind set of a live socket (listener running <-> bound). PARTIAL: OS, scheduler, timing observed not modelled. Tie: real multi-thread runtime, real TCP v4/v6 + IPC, raw clients; directed cases per type x transport and seeded op sequences <= 12 over bind/dup/rebind/malformed/unbind/unknown/connect-in/message-on-old-connection/a client STALLED in its handshake (the endpoint must go on accepting and unbind must return); the model predicts the outcome class of every op; python reference BindSet oracle (binds() after every op, connect right after unbind returns). accept-error-unbind-during: unbind issued while accept() keeps failing returns and the endpoint refuses afterwards.",
        note=LEAN_NOTE + "OS hands out no listening address twice; refusal immediate on loopback/unix sockets; transports unavailable in the sandbox are skipped and recorded",
        technique="Lean 4 proof (refinement of the bind table to a set) + real-runtime outcome-class correspondence",
    ),
    "C19": dict(
        engine="endpoint",
        text="Lean 4 theorems over the endpoint parser model (the two regexes' semantics spelled out over List Char): parse s = ok e <-> the declarative grammar of the property (strict, both directions), parse (display e) = ok e for every parsed e (round trip, IPv6 bracketed), the only slicing operation is in range and on char boundaries (total), IP literals become addresses. std::net enters through an explicit structure of laws; for the executable std models ALL of them are proved (IPv4 round trip for all 2^32 addresses, IPv6 round trip for all 2^128 addresses — RFC 5952 printing against the recursive-descent parser —, character sets, text shapes): C19_roundtrip_std has no hypothesis; that the models are std::net is sampled on every run. Tie: real str::parse::<Endpoint>() + Display + re-parse vs the model, EXHAUSTIVELY over a 17-character alphabet (incl. newline, non-ASCII digit, upper case) to length 4/5 after 5 prefixes, grammar-based and mutated endpoints; the Lean models of std::net parse/print are compared with the real std on sampled addresses and near-valid IPv6/IPv4 texts.",
        note=LEAN_NOTE + "regex crate semantics of the two patterns; Rust std::net (IPv4/IPv6 text laws are hypotheses, sampled)",
        technique="Lean 4 proof (strictness iff, round trip modulo std::net laws) + exhaustive small-alphabet differential correspondence",
    ),
    "C20": dict(
        engine="net",
        text="Lean 4 on the per-connection handshake-task model (Model/Net.lean): a step of connection c's task changes no other connection, no bind table, no socket's liveness (locality); what it concludes is a function of c's OWN bytes and the local socket type only (non-interference: a peer supplying a valid greeting + compatible READY is registered by its own step whatever the other connections do); accepting depends on the bind tables only; a failing handshake appends exactly one AcceptFailed and closes the connection. PARTIAL: that the code really runs one task per connection is OBSERVED. Tie: real runtime, TCP + IPC, every bound socket type: raw clients that stop / close / send garbage at byte offset k of greeting+READY (boundary grid quick; thorough: every offset for PULL and ROUTER, the grid for the other types), 1..3 at once, and bursts of connections ABORTED (RST) right after connect, with good clients before (established traffic continues), during and after; monitor event multiset compared; model predicts every outcome class. long-stall: a client silent for 6.5 s (31 s thorough) before it goes away is still reported.",
        note=LEAN_NOTE + "tokio task scheduling and the kernel accept queue observed, not modelled; Disconnected events not compared",
        technique="Lean 4 proof (locality + non-interference of per-connection tasks) + real-runtime stall/garbage-offset correspondence",
    ),
}


def main():
    hooks_commits = subprocess.run(
        ["git", "-C", "/repo", "log", "--format=%h %s"], capture_output=True, text=True
    ).stdout.splitlines()
    hook_shas = [l.split()[0] for l in hooks_commits if "verif hooks" in l]
    checks = []
    for p in props:
        c = CLAIMS.get(p["id"])
        if not c:
            continue
        checks.append(
            {
                "property_id": p["id"],
                "quick_cmd": f"./check {p['id']} quick",
                "thorough_cmd": f"./check {p['id']} thorough",
                "evidence_file": f"evidence/{p['id']}.json",
                "replay_cmd_template": "./check replay {path}",
                "engine": c["engine"],
                "level_claimed": {"category": "proof", "text": c["text"], "design_ref": f"DESIGN.md §5 {p['id']}"},
                "level_note": c["note"],
                "technique": c["technique"],
            }
        )
    m = {
        "version": 1,
        "setup_cmd": "./setup.sh",
        "hooks": {
            "guard": "cargo feature `verif-hooks` (module zeromq::__verif)",
            "enable": "harness/Cargo.toml depends on /repo with features = [\"verif-hooks\"]; ./check rebuilds it from /repo's working tree on every run",
            "baseline_off_cmd": "cd /repo && cargo test --workspace --no-fail-fast --offline",
            "source_commits": hook_shas,
            "add_only": True,
        },
        "engines": [
            {"name": "tables", "path": "harness/src/tables.rs -> lean/ZmqVerif/Gen/Tables.lean", "serves_properties": ["C01", "C03", "C04"], "kind_free_text": "finite tables regenerated from the real code's behaviour on every run; theorems re-proved over them by decide"},
            {"name": "codec", "path": "harness/src/codec.rs + lean/Driver/Codec.lean", "serves_properties": ["C01", "C02", "C03"], "kind_free_text": "real ZmqCodec vs the Lean decoder/encoder model over a line protocol; hostile mode with counting allocator and small-stack thread"},
            {"name": "fq", "path": "harness/src/fq.rs + lean/Driver/Fq.lean", "serves_properties": ["C05", "C06"], "kind_free_text": "real FairQueue (via __verif::FairQueueProbe) over scripted streams with window actions and a counting receiver waker vs the Lean micro-step model, exact schedule replay"},
            {"name": "world", "path": "harness/src/world.rs + harness/src/pipe.rs + lean/Driver/World.lean (Model/World.lean)", "serves_properties": ["C04", "C07", "C08", "C09", "C10", "C11", "C12", "C13", "C14", "C15", "C16", "C17"], "kind_free_text": "any number of REAL sockets + scripted in-memory pipes attached through the real handshake + user futures polled one poll at a time; the Lean World model replays the same schedule and must predict every line"},
            {"name": "net", "path": "harness/src/net.rs + lean/Driver/Net.lean (Model/Net.lean)", "serves_properties": ["C17", "C18", "C20"], "kind_free_text": "real multi-thread tokio runtime, real TCP v4/v6 + IPC listeners, raw ZMTP peers; outcome classes awaited by polling up to a deadline; the Lean model predicts the class of every op"},
            {"name": "endpoint", "path": "harness/src/endpoint.rs + lean/Driver/Endpoint.lean", "serves_properties": ["C19"], "kind_free_text": "real Endpoint::from_str/Display and std::net vs the Lean endpoint and IP text models"},
            {"name": "spec", "path": "lean/Driver/Spec.lean", "serves_properties": ["C01"], "kind_free_text": "Lean Spec predicates (strict RFC-23 grammar) evaluated on bytes the implementation produced"},
        ],
        "checks": checks,
        "not_applicable": [
            {"property_id": p["id"], "reason": "check not built yet in this session (the design in DESIGN.md §5 applies; it will be claimed when its check exists)"}
            for p in props
            if p["id"] not in CLAIMS
        ],
        "notes": "Proof = Lean 4 theorems about hand-written executable models; the tie to /repo is checked on every run by (a) tables regenerated from the code and re-proved, (b) differential correspondence of the model's executable definitions with the real code. See DESIGN.md.",
    }
    json.dump(m, open(os.path.join(ROOT, "MANIFEST.json"), "w"), indent=1)
    print("claimed:", [c["property_id"] for c in checks])


if __name__ == "__main__":
    main()
