#!/bin/bash
# tools/quickall.sh [tier]  — every property's check on the current tree, one after the other; exit codes in .work/quickall.txt
cd /verif
tier=${1:-quick}
: > .work/quickall.txt
for i in $(seq -w 1 20); do
  id=C$i
  t0=$(date +%s)
  ./check $id $tier > .work/q_$id.log 2>&1
  rc=$?
  t1=$(date +%s)
  echo "$id rc=$rc $((t1-t0))s violations=$(grep -c '^VIOLATION' .work/q_$id.log) known=$(grep -c '^KNOWN-FINDING' .work/q_$id.log) tracebacks=$(grep -c Traceback .work/q_$id.log)" | tee -a .work/quickall.txt
done
