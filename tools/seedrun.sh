#!/bin/bash
# tools/seedrun.sh <seed-name> <check-id>...   apply the seeded change to /repo, run the checks, undo it
NAME=$1; shift
cd /repo && git status --short | grep -q . && { echo "/repo not clean"; exit 2; }
git -C /repo apply /verif/seeded/$NAME/patch.diff || exit 2
cd /verif
for id in "$@"; do
  out=$(./check $id quick 2>&1)
  rc=$?
  n=$(echo "$out" | grep -c "^VIOLATION")
  first=$(echo "$out" | grep -A1 "^VIOLATION" | grep -v "^VIOLATION\|^--" | head -1 | cut -c1-260)
  echo "$NAME $id rc=$rc violations=$n :: $first"
done
git -C /repo checkout -- .
