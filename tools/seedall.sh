#!/bin/bash
# tools/seedall.sh [name-prefix]  — regression over the stored seeded changes: each is applied to /repo, the quick check of
# ITS property is run and must report a violation (exit 1 with a VIOLATION line); /repo is restored afterwards.
# Writes seeded/RESULTS.txt.  Never run while anything else uses /repo.
cd /verif
out=seeded/RESULTS.txt
: > $out.new
for d in seeded/${1:-}*/; do
  n=$(basename $d)
  [ -f $d/meta.json ] || continue
  id=$(python3 -c "import json;print(json.load(open('$d/meta.json'))['property'])")
  t0=$(date +%s)
  line=$(tools/seedrun.sh $n $id 2>&1 | tail -1 | cut -c1-300)
  t1=$(date +%s)
  echo "$(echo "$line" | grep -q 'rc=1 violations=[1-9]' && echo CAUGHT || echo MISSED) $((t1-t0))s $line" | tee -a $out.new
done
mv $out.new $out
grep -c '^CAUGHT' $out; grep '^MISSED' $out
