#!/usr/bin/env python3
"""tools/seedmeta.py <seed-name> <round> <caught_by ;-separated> [note]  — writes seeded/<name>/meta.json from the agent's own
seed/meta.json (copied as agent_meta.json by seedconfirm.sh) plus what was observed when the checks were run."""
import json, os, sys
name, rnd, caught = sys.argv[1], int(sys.argv[2]), [c for c in sys.argv[3].split(";") if c]
note = sys.argv[4] if len(sys.argv) > 4 else ""
d = os.path.join(os.path.dirname(os.path.abspath(__file__)), "..", "seeded", name)
am = json.load(open(os.path.join(d, "agent_meta.json")))
meta = {
    "property": am["property"], "round": rnd, "what": am.get("what", ""), "needs": am.get("needs", ""),
    "clause": am.get("clause", ""),
    "confirmed": "tools/seedconfirm.sh in the agent's scratch worktree: repository suite green with the change (demo excluded), "
                 "`cargo build --offline --features verif-hooks` ok, demo FAILS with the change and PASSES without it",
    "checks_run": f"tools/seedrun.sh {name} ... (git -C /repo apply patch.diff; ./check <id> quick; git -C /repo checkout -- .)",
    "caught_by": caught, "note": note,
    "demo": "demo.rs — place under tests/ of the repository and run with `cargo test --offline --features verif-hooks --test <name>`",
}
json.dump(meta, open(os.path.join(d, "meta.json"), "w"), indent=1)
print("wrote", os.path.join(d, "meta.json"))
